"""C11 — results are equivariant under reordering of elements and of phases.

Parts (all on every run):
  A  argsort / take / unsort of KawinV.Permute vs NumPy on random distinct keys (names, ints, doubles)
  B  the REAL wrapper code of Thermodynamics.py / MultiTherm.py / DiffusionParameters.py run on a stubbed
     backend that is an arbitrary (hash-seeded) function of the alphabetically ordered data: correspondence
     with wrapVec / wrapMat / wrapVecRef / wrapVecFull, and the direct oracle (two listings of 3-6 elements
     must give results that are permutations of each other)
  B2 the REAL diffusion-side code (profile / boundary-condition mapping by element, computeMobility,
     computeHomogenizationFunction, _computeSingleMobility, getFluxes / getdXdt / getDt of SinglePhaseModel and
     HomogenizationModel) on the same stub backend, 3-6 elements, two listings: everything compared by element
     NAME, chemical potentials / mobilities against the backend answer by name, sibling functions against each other
  C  the REAL Constraints.computeDTfrom…, PrecipitateModel.getDt and _calcNucleationSites on random hand-set
     multi-phase states (1-4 phases, all five site types, parent phases) vs KawinV.DtRules, and the direct
     oracle under all listings of the phases
  C2 the REAL PrecipitateModel._updateParticleSizeDistribution on hand-set 2-4 phase models with a loaded size
     distribution in every phase (re-meshing, thresholds, dissolution index; _growthRate stubbed by an arbitrary
     per-phase function), followed by the real getDt: per-phase state by phase NAME across listings and against
     the same phase updated alone (the update is `map` of a per-phase function)
  C3 the REAL PrecipitateModel.setup() (base setup, _setupAspectRatio, tables, first nucleation / growth evaluation) on
     2-3 phase models whose phases differ in shape, aspect ratio (constant / function of R / computed from a
     StrainEnergy), site type, volume, interfacial energy, grid; thermodynamics stubbed by an arbitrary per-phase
     function: per-phase state AND the per-phase functions evaluated on a radius grid (aspectRatio, eqRadiusFactor,
     kineticFactor, thermoFactor, particleGibbs, strain energy) by phase NAME across listings and against the same
     phase set up alone; getDt after setup
  D  MONITORED (oracle only): pycalphad + floating point — paired ternary Ni-Cr-Al evaluations with the
     elements listed NI,AL,CR / NI,CR,AL; a short paired ternary diffusion run; a paired ternary KWN run;
     paired two-phase Al-Mg-Si KWN runs (both phase orders; from nucleation and from loaded size distributions): same
     time grid, same histories, same final PSD / dissolution index, permuted; paired homogenization-path evaluations
     (Fe-Cr-Ni FE,NI,CR / FE,CR,NI and Ni-Cr-Al NI,AL,CR / NI,CR,AL: a 3-cycle listing against an involutive one).
"""
import contextlib, hashlib, itertools, math, random, time, types, warnings
import numpy as np
import vlib
from vlib import Result, enc_list, enc_ilist, enc_bool, f2b, Toks, close

PROP = 'C11'
META = {
    'level_text': 'Lean 4 theorems (any number of elements / phases): argsort(argsort(k)) inverts argsort(k) for vectors and for rows∘columns of a matrix; for an ARBITRARY backend function of alphabetically ordered data the wrapper unsort∘backend∘sort is equivariant under every permutation of the listed solutes (vector results permuted, matrix results P·D·Pᵀ, also with the reference element kept in front); D·∇x commutes with a re-listing of the independent elements; every computeDTfrom… rule, getDt and _calcNucleationSites are invariant under List.Perm of the phase list (min is symmetric, sums over phases commute), the step summary (dt, sites per phase) is equivariant; the per-phase set-up (setup / _setupAspectRatio) and the per-phase update of a step are maps over the phases, hence equivariant (the late-binding closure form of the set-up is a proved counter-example), and getDt after it is invariant (the form with the dissolution-index refresh dedented out of the loop is the proved counter-example); computeDTfromVolume as it WAS is proved order dependent on a concrete witness (repaired in /repo). Models tied to the real wrapper code (run on stubbed arbitrary backends) and to the real Constraints / PrecipitateModel objects by differential correspondence on every run; the property itself is evaluated on the implementation for all listings.',
    'level_note': 'MONITORED only (oracle, no proof): everything that involves pycalphad and IEEE arithmetic — that the real backend (equilibrium solver, mobility models, linear algebra) is a function of the alphabetically ordered data only (paired NI,AL,CR / NI,CR,AL evaluations to rtol 1e-6), the ternary diffusion run, the ternary and two-phase KWN runs (time grid rtol 1e-6, histories rtol 2e-3: solver noise of 1e-9 in the driving force is amplified by exp(-G*/kT) in the nucleation rate). Proved statements are in exact field arithmetic: floating-point sums over phases may differ in the last ulp between listings (compared to rtol 1e-12). The whole KWN step is modelled as far as getDt and the nucleation-site competition go; the per-phase PBM update, mass balance and growth rate are per-phase or order-free sums covered by C01/C02/C07 and by the paired runs. np.argsort is modelled for DISTINCT keys (element names are distinct). Trusted: Lean kernel + Mathlib, axioms propext/Classical.choice/Quot.sound; hand models equal the Python code as far as this run compared them.',
    'technique': 'Lean 4 proof (List.Perm / sorted lists, ordered fields) + model/implementation differential correspondence with stubbed backends + paired-run oracle',
    'design_ref': 'DESIGN.md section 6, C11',
}
LEAN_MODULES = ['KawinV.Props.C11']
MONITORED = [
    'pycalphad backend depends on the alphabetically ordered data only: paired Ni-Cr-Al evaluations (driving force and precipitate composition by 4 methods, interdiffusivity, tracer diffusivity, mobility, interfacial composition, curvature factors, growth) with elements NI,AL,CR vs NI,CR,AL, rtol 1e-6',
    'paired ternary single-phase diffusion run (CR,AL vs AL,CR): same time, profiles permuted, rtol 1e-8',
    'paired real homogenization-path evaluations with a 3-cycle listing (FE,NI,CR vs FE,CR,NI; NI,AL,CR vs NI,CR,AL): homogenized mobility, chemical potentials, computeMobility, fluxes, dt (thorough: profiles after 3 steps) by element name, rtol 1e-6',
    'paired Al-Mg-Si runs started from loaded log-normal size distributions in every phase (removeCache=True): time grid rtol 1e-6, histories 1e-4, final PSD / size classes / dissolution index by phase name',
    'paired ternary KWN run (Al,Cr vs Cr,Al) and paired two-phase Al-Mg-Si KWN runs (both phase orders): time grid rtol 1e-6, per-phase histories rtol 2e-3',
    'floating-point sums over phases (site competition) between listings: rtol 1e-12',
]
ASSUMPTIONS = [
    'element names and phase names are distinct; the reference element is listed first (API contract of kawin.thermo)',
    'a precipitation model has at least one phase (np.amin of an empty array raises)',
    'paired real runs in which the matrix runs out of a solute (composition clamped at minComposition) are not compared: on the composition boundary the pycalphad answers are erratic from call to call',
    'NaN inputs are outside the statement (x != 0 is modelled as x < 0 or 0 < x)',
    'exact-field theorems vs IEEE doubles: model/implementation compared with rtol 1e-9, listings of the implementation with rtol 1e-12',
]
TRUSTED = [
    'np.argsort on distinct keys (str by code point, int, float) = ascending order, as modelled in KawinV.Permute.argsort (compared on every run)',
    'the stubs stand for pycalphad: they receive exactly what the real wrapper code hands over (conditions dictionary built by the real _getConditions) and answer in alphabetical component order, as pycalphad does (checked on the real backend by the paired Ni-Cr-Al evaluations)',
    'PBM.getDTEuler as modelled by KawinV.PBM.getDT (property C07)',
]

POOL = ['AL', 'CR', 'NI', 'FE', 'C', 'CO', 'CU', 'MG', 'SI', 'TI', 'ZR', 'MN', 'MO', 'NB', 'W', 'V', 'ZN', 'B', 'N',
        'TA', 'HF', 'RE', 'Y', 'O', 'H']
SITES = ['bulk', 'dislocations', 'grain boundaries', 'grain edges', 'grain corners']


# ---------------------------------------------------------------- guards: one exception must not abort the run
_STAGE = {'at': None}


def at(name):
    """announce the implementation call that is about to be made (ends up in the key of a `raises:` violation)"""
    _STAGE['at'] = name


def guard(res, part, case, fn, *a, **k):
    """run one case.  An exception raised INSIDE the code under test becomes a violation `raises:<part>:<call>:<ExcType>`
    carrying the case (replayable: part + seed) and the run goes on; an exception of the harness itself is collected in
    res.extra['harness_errors'] and re-raised by vlib.finish_guard(res) only if the run found no violation.
    Returns (ok, value)."""
    import traceback
    _STAGE['at'] = None
    try:
        return True, fn(*a, **k)
    except Exception as e:
        tb = traceback.format_exc()
        if vlib.in_repo_traceback(tb):
            site = [l.strip() for l in tb.splitlines() if l.strip().startswith('File "%s' % vlib.REPO)]
            what = part + (':' + str(_STAGE['at']) if _STAGE['at'] else '')
            c = dict(case) if isinstance(case, dict) else dict(case=case)
            c.update(raised_at=site[-1] if site else None, message=str(e)[:200])
            res.violate('raises:%s:%s' % (what, type(e).__name__), 'the implementation raised %s: %s' % (type(e).__name__, str(e)[:200]), vlib.jsonable(c))
        else:
            res.extra.setdefault('harness_errors', []).append({'what': part, 'error': tb[-1500:]})
            res._harness_exc = e
        return False, None


def run_model(res, lines, use_model):
    """answers of the Lean driver, or None (oracle only) when it is not available / fails"""
    if not use_model:
        return None
    ok, out = guard(res, 'driver', dict(part='driver', lines=len(lines)), vlib.run_driver, PROP, lines)
    return out if ok else None


def enc_names(ns):
    ns = list(ns)
    return ' '.join([str(len(ns))] + [str(n) for n in ns])


def enc_mat(m):
    m = [list(r) for r in m]
    return ' '.join([str(len(m))] + [enc_list(r) for r in m])


def rel(a, b):
    a = np.asarray(a, dtype=float); b = np.asarray(b, dtype=float)
    if a.shape != b.shape:
        return float('inf')
    if a.size == 0:
        return 0.0
    if np.any(np.isnan(a) != np.isnan(b)):
        return float('inf')
    m = ~np.isnan(a)
    if not m.any():
        return 0.0
    d = np.abs(a[m] - b[m]); s = np.maximum(np.abs(a[m]), np.abs(b[m]))
    nz = s > 0
    return float(np.max(d[nz] / s[nz])) if nz.any() else 0.0


# =========================================================================== part A: argsort / take
def part_argsort(ctx, res, N, use_model):
    cases, lines = [], []
    for _ in range(N):
        s = ctx.rng.getrandbits(48); r = random.Random(s)
        kind = r.choice(['str', 'str', 'int', 'flt'])
        n = r.choice([1, 2, 3, 3, 4, 5, 6, 8, 12])
        if kind == 'str':
            n = min(n, len(POOL)); keys = r.sample(POOL, n)
        elif kind == 'int':
            keys = r.sample(range(-50, 50), n)
        else:
            keys = [r.uniform(-1, 1) * 10 ** r.randint(-3, 3) for _ in range(n)]
            if len(set(keys)) != n:
                res.near_tie_skipped += 1; continue
        a = [r.uniform(-9, 9) for _ in range(n)]
        arr = np.array(keys)
        srt = np.argsort(arr); uns = np.argsort(srt)
        a_s = np.array(a)[srt]; back = a_s[uns]
        cases.append((s, kind, keys, a, srt.tolist(), uns.tolist(), a_s.tolist(), back.tolist()))
        if kind == 'str':
            lines.append('perm.argsort.str ' + enc_names(keys))
            lines.append('perm.roundtrip %s %s' % (enc_names(keys), enc_list(a)))
        elif kind == 'int':
            lines.append('perm.argsort.int ' + enc_ilist(keys))
            lines.append('perm.take %s %s' % (enc_ilist(srt), enc_list(a)))
        else:
            lines.append('perm.argsort.flt ' + enc_list(keys))
            lines.append('perm.take %s %s' % (enc_ilist(uns), enc_list(a_s)))
    model = run_model(res, lines, use_model)
    for k, (s, kind, keys, a, srt, uns, a_s, back) in enumerate(cases):
        def _body():
            n = len(keys)
            desc = dict(part='argsort', seed=s, kind=kind, keys=keys)
            res.case(('argsort', kind, n, s), n >= 3 and srt != uns)
            res.count('A:keys-' + kind); res.count('A:sort!=unsort' if srt != uns else 'A:sort==unsort')
            # direct oracle on NumPy itself: the inverse-permutation identities the code relies on
            if not np.array_equal(back, a) or [keys[i] for i in srt] != sorted(keys) or [srt[u] for u in uns] != list(range(n)):
                res.violate('argsort-inverse', 'np.argsort(np.argsort(k)) does not undo np.argsort(k)', desc, back, a)
            if model is None:
                return
            t = Toks(model[2 * k])
            if not t.ok:
                res.disagree('argsort model error', desc, 'ok', t.err); return
            ms, mu = t.nats(), t.nats()
            if ms != srt:
                res.disagree('argsort', desc, srt, ms)
            if mu != uns:
                res.disagree('unsortIndices', desc, uns, mu)
            t = Toks(model[2 * k + 1])
            if kind == 'str':
                m_s, m_back, m_back2 = t.flts(), t.flts(), t.flts()
                if m_s != a_s or m_back != a or m_back2 != a:
                    res.disagree('take round trip', desc, [a_s, a], [m_s, m_back, m_back2])
            elif kind == 'int':
                if t.flts() != a_s:
                    res.disagree('take(sort)', desc, a_s, model[2 * k + 1])
            else:
                if t.flts() != back:
                    res.disagree('take(unsort)', desc, back, model[2 * k + 1])
        guard(res, 'argsort:analysis', dict(part='argsort', seed=s), _body)


# =========================================================================== part B: real wrappers, stub backend
class FakeCS:
    """composition set of the stub backend; `data` is the alphabetical answer it belongs to"""
    def __init__(self, names_sorted, X, phase_name, NP=1.0, data=None):
        self.X = np.array(X, dtype=np.float64)
        self.NP = NP
        self.data = data
        self.phase_record = types.SimpleNamespace(nonvacant_elements=list(names_sorted), phase_name=phase_name)


def backend_data(names_sorted, ref, xs_sorted, T, salt):
    """the 'arbitrary backend': pseudo-random but DETERMINISTIC function of the alphabetically ordered data"""
    key = repr((list(names_sorted), ref, [float(v) for v in xs_sorted], float(T), salt))
    g = np.random.default_rng(int.from_bytes(hashlib.sha1(key.encode()).digest()[:8], 'little'))
    n = len(names_sorted); m = n - 1
    A = g.uniform(0.1, 1.0, (m, m))
    d = dict(
        D=g.uniform(0.1, 1.0, (m, m)) + m * np.eye(m),
        dMuA=g.uniform(0.1, 1.0, (m, m)) + m * np.eye(m),
        dMuP=g.uniform(0.1, 1.0, (m, m)) + m * np.eye(m),
        invMob=A @ A.T + m * np.eye(m),
        Dtrace=10 ** g.uniform(-18, -14, n),
        mob=10 ** g.uniform(-22, -18, n), mobP=10 ** g.uniform(-22, -18, n),
        mu1=g.uniform(-9e4, -1e4, n), mu2=g.uniform(-9e4, -1e4, n),
        XM=g.dirichlet(np.ones(n) * 2), XP=g.dirichlet(np.ones(n) * 2),
        dg=float(g.uniform(-3e3, 8e3)), npfrac=float(g.uniform(0.1, 0.9)),
    )
    return d


class Stub:
    """a thermodynamics object whose wrapper code is kawin's but whose backend (pycalphad equilibrium, mobility
    models, Hessians) is `backend_data`: an arbitrary function of the alphabetically ordered data"""
    def __init__(self, elements_user, salt, log):
        import kawin.thermo.Thermodynamics as TH
        import kawin.thermo.MultiTherm as MT
        import kawin.diffusion.DiffusionParameters as DP
        from pycalphad import variables as v
        self.TH, self.MT, self.DP, self.v = TH, MT, DP, v
        self.elements = list(elements_user); self.salt = salt; self.log = log
        self.ref = elements_user[0]
        self.names_sorted = sorted(elements_user)
        self.nonref_sorted = [e for e in self.names_sorted if e != self.ref]
        self.refIndex = self.names_sorted.index(self.ref)
        th = object.__new__(MT.MulticomponentThermodynamics)
        th.elements = list(elements_user) + ['VA']
        th.numElements = len(elements_user)
        th.phases = ['MAT', 'PREC']
        th.mobCallables = {'MAT': object(), 'PREC': object()}
        th.diffCallables = {'MAT': None, 'PREC': None}
        th.mobility_correction = {}
        th._parameters = {}
        th.vacancyPoorInterstitialSublattice = {}
        th.orderedPhase = {'PREC': False}
        th.db = None; th.phase_records = None; th.models = {}
        th.pDens = 10; th.sampling_pDens = 10
        th._compset_cache_df = {}; th._matrix_cs = None; th._points_cache = {}; th._diffusivity_cache = {}
        th._compset_cache_curvature = {}
        th._curvature_outputs = {'PREC': MT.CurvatureOutput()}
        th.getLocalEq = self.getLocalEq; th.getEq = self.getEq
        th._getCompositionSetsForDF = self.compsets; th._getCompositionSetsEq = self.compsets
        th._getPrecCompositionSetSamplingDF = self.sampling
        th._setupSubModels = lambda precPhase=None: (['PREC'], {})
        self.th = th

    def data_for(self, x, T, gExtra=0):
        cond = self.TH.GeneralThermodynamics._getConditions(self.th, x, T, gExtra)       # the REAL dictionary construction
        pairs = sorted((k.species.name, float(val)) for k, val in cond.items() if isinstance(k, self.v.MoleFraction))
        self.log.setdefault('seen', []).append(pairs)
        return backend_data(self.names_sorted, self.ref, [p[1] for p in pairs], T, self.salt)

    def csM(self, d, NP=1.0):
        return FakeCS(self.names_sorted, d['XM'], 'MAT', NP, d)

    def csP(self, d, NP=1.0):
        return FakeCS(self.names_sorted, d['XP'], 'PREC', NP, d)

    def getLocalEq(self, x, T, gExtra=0, precPhase=None, composition_sets=None):
        d = self.data_for(x, T, gExtra)
        return types.SimpleNamespace(chemical_potentials=d['mu1'].copy(), x=[d['dg']]), [self.csM(d)]

    def getEq(self, x, T, gExtra=0, precPhase=None):
        d = self.data_for(x, T, gExtra)
        css = [self.csM(d, d['npfrac']), self.csP(d, 1 - d['npfrac'])]
        return types.SimpleNamespace(eq=types.SimpleNamespace(MU=d['mu2'].copy()[np.newaxis, :]), get_composition_sets=lambda: css)

    def compsets(self, x, T, precPhase, *a, **k):
        d = self.data_for(x, T)
        return d['mu2'].copy(), self.csM(d), self.csP(d)

    def sampling(self, x, T, mu, precPhase, cond=None):
        d = self.data_for(x, T)
        return d['dg'], self.csP(d)

    @contextlib.contextmanager
    def patched(self):
        TH, MT, DP = self.TH, self.MT, self.DP
        def f_invmob(mu, cs, refEl, *a, **k):
            d = cs.data; return d['D'].copy(), d['dMuA'].copy(), d['invMob'].copy()
        def f_tracer(cs, *a, **k):
            return cs.data['Dtrace'].copy()
        def f_dmudx(mu, cs, refEl):
            return (cs.data['dMuA'] if cs.phase_record.phase_name == 'MAT' else cs.data['dMuP']).copy()
        def f_mob(cs, *a, **k):
            return (cs.data['mob'] if cs.phase_record.phase_name == 'MAT' else cs.data['mobP']).copy()
        def f_loceq(db, comps, phases, cond, models, prx, composition_sets=None):
            d = composition_sets[0].data
            return types.SimpleNamespace(chemical_potentials=d['mu2'].copy(), x=[d['dg']]), [self.csP(d)]
        saved = []
        def patch(mod, name, f):
            saved.append((mod, name, getattr(mod, name))); setattr(mod, name, f)
        try:
            for mod in (TH, MT):
                patch(mod, 'inverseMobility', f_invmob); patch(mod, 'tracer_diffusivity', f_tracer); patch(mod, 'dMudX', f_dmudx)
            patch(TH, 'local_equilibrium', f_loceq)
            patch(DP, 'mobility_from_composition_set', f_mob)
            yield self.th
        finally:
            for mod, name, f in reversed(saved):
                setattr(mod, name, f)


def run_wrappers(elements_user, x_user, T, salt, log):
    """run the real wrapper code with the stubbed backend; returns dict of results (user order)"""
    st = Stub(elements_user, salt, log)
    DP = st.DP
    names_sorted, nonref_sorted, refIndex = st.names_sorted, st.nonref_sorted, st.refIndex
    out = {}
    with st.patched() as th:
        x = np.array(x_user, dtype=float)
        d = st.data_for(x, T)
        at('getInterdiffusivity'); out['D'] = np.array(th.getInterdiffusivity(x, T))
        at('getTracerDiffusivity'); out['tracer'] = np.array(th.getTracerDiffusivity(x, T))
        for meth in ('approximate', 'curvature', 'sampling', 'tangent'):
            th.setDrivingForceMethod(meth)
            th._compset_cache_df = {'PREC': [st.csP(d)]} if meth == 'tangent' else {}
            th._matrix_cs = None
            at('getDrivingForce-' + meth); dg, xp = th.getDrivingForce(x, T, precPhase='PREC')
            out['dg_' + meth] = float(dg); out['xp_' + meth] = np.atleast_1d(np.array(xp, dtype=float))
        at('_interfacialComposition'); ca, cb = th._interfacialComposition(x, T, 100.0, 'PREC')
        out['ic_a'] = np.array(ca); out['ic_b'] = np.array(cb)
        at('_curvatureFactorFromEq'); co = th._curvatureFactorFromEq(d['mu2'].copy(), st.csM(d), st.csP(d), 'PREC')
        out['dc'] = np.array(co.dc); out['mc'] = float(co.mc); out['gba'] = np.array(co.gba); out['beta'] = float(co.beta)
        out['ceq_a'] = np.array(co.c_eq_alpha); out['ceq_b'] = np.array(co.c_eq_beta)
        at('computeMobility'); md = DP.computeMobility(th, x, T)
        out['mob'] = np.array(md.mobility[0]); out['mob_mu'] = np.array(md.chemical_potentials[0])
    # alphabetical answers of the backend for the model side (computed independently of the wrapper code)
    xM = np.delete(d['XM'], refIndex); xP = np.delete(d['XP'], refIndex)
    xs = np.array([p[1] for p in log['seen'][0]])
    xbar = (xP - xM)
    num = np.linalg.inv(d['D']) @ xbar
    den = float(xbar @ d['invMob'] @ xbar)
    from kawin.thermo.Mobility import x_to_u_frac, interstitials
    alpha = dict(
        D=d['D'], tracer=d['Dtrace'], xp_full=d['XP'], ic_a=d['XM'], ic_b=d['XP'],
        xp_nonref=xP, dc=num / den, gba=np.linalg.inv(d['dMuP']) @ d['dMuA'], ceq_a=xM, ceq_b=xP,
        mc=1 / den, beta=1 / float(np.sum((d['XP'] - d['XM']) ** 2 / (d['Dtrace'] * d['XM']))),
        dg_approximate=float(np.sum(d['XP'] * d['mu1']) - np.sum(d['XP'] * d['mu2'])),
        dg_curvature=float((xs - xM) @ d['dMuA'] @ xbar), dg_sampling=d['dg'], dg_tangent=d['dg'],
        mobM=d['mob'] * x_to_u_frac(d['XM'], names_sorted, interstitials), mobP=d['mobP'] * x_to_u_frac(d['XP'], names_sorted, interstitials),
        mob_mu=d['mu2'], xs=xs, nonref_sorted=nonref_sorted, names_sorted=names_sorted,
    )
    return out, alpha


VEC_SOL = ['xp_approximate', 'xp_curvature', 'xp_sampling', 'xp_tangent', 'dc', 'ceq_a', 'ceq_b']   # one entry per solute
VEC_FULL = ['tracer', 'ic_a', 'ic_b', 'mob_mu']                                                         # reference entry first
SCAL = ['dg_approximate', 'dg_curvature', 'dg_sampling', 'dg_tangent', 'mc', 'beta']


def gen_wrapper_case(r):
    n = r.choice([3, 3, 4, 4, 5, 6])
    els = r.sample(POOL, n)
    while els[0] in ('C', 'N', 'O', 'H', 'B'):       # the reference element is a substitutional metal
        els = r.sample(POOL, n)
    x = [r.uniform(0.01, 0.9 / n) for _ in range(n - 1)]
    p = list(range(n - 1))
    for _ in range(20):
        r.shuffle(p)
        if p != list(range(n - 1)) or n - 1 == 1:
            break
    return dict(elements=els, x=x, T=r.uniform(600, 1500), perm=p, salt=r.getrandbits(30))


def part_wrappers(ctx, res, N, use_model):
    vlib.use_repo()
    cases, lines = [], []
    for _ in range(N):
        s = ctx.rng.getrandbits(48)
        c = gen_wrapper_case(random.Random(s)); c['seed'] = s; c['part'] = 'wrappers'
        els, x, p = c['elements'], c['x'], c['perm']
        sol = els[1:]
        els2 = [els[0]] + [sol[i] for i in p]; x2 = [x[i] for i in p]
        log1, log2 = {}, {}

        def _run():
            with warnings.catch_warnings():
                warnings.simplefilter('ignore')
                o1, al = run_wrappers(els, x, c['T'], c['salt'], log1)
                o2, _ = run_wrappers(els2, x2, c['T'], c['salt'], log2)
            return o1, o2, al
        ok, val = guard(res, 'wrappers', c, _run)
        if not ok:
            continue
        o1, o2, al = val
        cases.append((c, o1, o2, al, log1, log2))
        lines.append('perm.vec %s %s %s' % (enc_names(sol), enc_list(x), enc_list(al['xp_nonref'])))
        lines.append('perm.mat %s %s %s' % (enc_names(sol), enc_list(x), enc_mat(al['D'])))
        lines.append('perm.mat %s %s %s' % (enc_names(sol), enc_list(x), enc_mat(al['gba'])))
        lines.append('perm.ref %s %s %s %s' % (els[0], enc_names(sol), enc_list(x), enc_list(al['xp_full'])))
        lines.append('perm.ref %s %s %s %s' % (els[0], enc_names(sol), enc_list(x), enc_list(al['tracer'])))
        lines.append('perm.vec %s %s %s' % (enc_names(sol), enc_list(x), enc_list(al['dc'])))
        lines.append('perm.ref %s %s %s %s' % (els[0], enc_names(sol), enc_list(x), enc_list(al['mobM'])))
    model = run_model(res, lines, use_model)
    PER = 7
    for k, (c, o1, o2, al, log1, log2) in enumerate(cases):
        def _body():
            els, x, p = c['elements'], c['x'], c['perm']
            n = len(els)
            lp = [0] + [i + 1 for i in p]
            involution = all(p[p[i]] == i for i in range(len(p)))
            res.case(('wrappers', tuple(els), tuple(p)), not involution)
            res.count('B:elements=%d' % n); res.count('B:perm-involution' if involution else 'B:perm-not-involution')
            if k < 1:
                res.sample(dict(part='wrappers', elements=els, listed_again=[els[0]] + [els[1:][i] for i in p], x=x,
                                D_first=o1['D'].tolist(), D_again=o2['D'].tolist()))
            desc = dict(c)
            # ---- direct oracle: the second listing gives the permuted results, nothing else changes
            if log1['seen'] != log2['seen']:
                res.violate('elem-order:backend-input', 'the backend was handed different alphabetical data for the two listings', desc, log2['seen'][:1], log1['seen'][:1])
            for q in VEC_SOL:
                if rel(o2[q], o1[q][p]) > 1e-12:
                    res.violate('elem-order:' + q, '%s of the re-listed elements is not the re-listed %s' % (q, q), desc, o2[q].tolist(), o1[q][p].tolist())
            for q in VEC_FULL:
                if rel(o2[q], o1[q][lp]) > 1e-12:
                    res.violate('elem-order:' + q, '%s of the re-listed elements is not the re-listed %s' % (q, q), desc, o2[q].tolist(), o1[q][lp].tolist())
            for q in ('D', 'gba'):
                if rel(o2[q], o1[q][p][:, p]) > 1e-12:
                    res.violate('elem-order:' + ('interdiffusivity' if q == 'D' else q), '%s of the re-listed elements is not P·%s·Pᵀ' % (q, q), desc, o2[q].tolist(), o1[q][p][:, p].tolist())
            if rel(o2['mob'], o1['mob'][:, lp]) > 1e-12:
                res.violate('elem-order:mobility', 'computeMobility of the re-listed elements is not the re-listed mobility', desc, o2['mob'].tolist(), o1['mob'][:, lp].tolist())
            for q in SCAL:
                if not close(o2[q], o1[q], 1e-12):
                    res.violate('elem-order:' + q, 'scalar result %s changed with the listing order' % q, desc, o2[q], o1[q])
            # ---- independent reference: the wrapper returns the backend's answer for the element at each listed position
            sol = els[1:]
            pos = [al['nonref_sorted'].index(e) for e in sol]
            posf = [al['names_sorted'].index(e) for e in els]
            refchecks = [('xp_approximate', al['xp_nonref'][pos]), ('xp_curvature', al['xp_nonref'][pos]), ('xp_sampling', al['xp_nonref'][pos]),
                         ('xp_tangent', al['xp_nonref'][pos]), ('dc', al['dc'][pos]), ('ceq_a', al['ceq_a'][pos]), ('ceq_b', al['ceq_b'][pos]),
                         ('tracer', al['tracer'][posf]), ('ic_a', al['ic_a'][posf]), ('ic_b', al['ic_b'][posf]), ('mob_mu', al['mob_mu'][posf]),
                         ('D', al['D'][pos][:, pos]), ('gba', al['gba'][pos][:, pos])]
            for q, want in refchecks:
                if rel(o1[q], want) > 1e-9:
                    res.violate('elem-order:' + ('interdiffusivity' if q == 'D' else q), '%s is not the backend answer by element name' % q, desc, np.asarray(o1[q]).tolist(), np.asarray(want).tolist())
            if rel(o1['mob'], np.array([al['mobM'][posf], al['mobP'][posf]])) > 1e-9:
                res.violate('elem-order:mobility', 'computeMobility is not the backend answer by element name', desc, o1['mob'].tolist(), [al['mobM'][posf].tolist()])
            for q in SCAL:
                if not close(o1[q], al[q], 1e-9):
                    res.violate('elem-order:' + q, 'scalar %s differs from the alphabetical evaluation (x handed over in the wrong order?)' % q, desc, o1[q], al[q])
            # ---- model correspondence
            if model is None:
                return
            def rd(i):
                return Toks(model[PER * k + i])
            t = rd(0)
            if not t.ok:
                res.disagree('perm.vec model error', desc, 'ok', t.err); return
            msort = t.nats(); msx = t.flts(); mres = t.flts(); mnames = t.rest()
            if msx != list(al['xs']) or mnames != al['nonref_sorted']:
                res.disagree('data handed to the backend (sorted names / x)', desc, [al['nonref_sorted'], list(al['xs'])], [mnames, msx])
            for q in ('xp_curvature',):
                if mres != o1[q].tolist():
                    res.disagree('wrapVec vs _getDrivingForceCurvature composition', desc, o1[q].tolist(), mres)
            for i, q in ((1, 'D'), (2, 'gba')):
                t = rd(i); rows = [t.flts() for _ in range(t.nat())]
                if rel(rows, o1[q]) > (0 if q == 'D' else 1e-12):
                    res.disagree('wrapMat vs ' + q, desc, o1[q].tolist(), rows)
            t = rd(3); msx = t.flts(); mtail = t.flts(); mfull = t.flts()
            for q in ('xp_approximate', 'xp_sampling', 'xp_tangent'):
                if mtail != o1[q].tolist():
                    res.disagree('wrapVecRef vs ' + q, desc, o1[q].tolist(), mtail)
            if mfull != o1['ic_b'].tolist():
                res.disagree('wrapVecFull vs interfacial composition', desc, o1['ic_b'].tolist(), mfull)
            t = rd(4); t.flts(); t.flts(); mfull = t.flts()
            if mfull != o1['tracer'].tolist():
                res.disagree('wrapVecFull vs tracer diffusivity', desc, o1['tracer'].tolist(), mfull)
            t = rd(5); t.nats(); t.flts(); mres = t.flts()
            if rel(mres, o1['dc']) > 1e-12:
                res.disagree('wrapVec vs curvature dc', desc, o1['dc'].tolist(), mres)
            t = rd(6); t.flts(); t.flts(); mfull = t.flts()
            if rel(mfull, o1['mob'][0]) > 1e-12:
                res.disagree('wrapVecFull vs computeMobility', desc, o1['mob'][0].tolist(), mfull)
        guard(res, 'wrappers:analysis', c, _body)


# =========================================================================== part B2: diffusion-side wrappers, stub backend
HFUNCS = ['WIENER_UPPER', 'WIENER_LOWER', 'HASHIN_UPPER', 'HASHIN_LOWER', 'LABYRINTH']


def gen_diffusion_case(r):
    c = gen_wrapper_case(r)
    n = len(c['elements'])
    prof = {}
    for e in c['elements'][1:]:
        kind = r.choice(['linear', 'linear', 'step', 'single'])
        a, b = r.uniform(0.02, 0.8 / n), r.uniform(0.02, 0.8 / n)
        prof[e] = (kind, a, b, r.uniform(-0.3, 0.3))
    bcs = {}
    for e in c['elements'][1:]:
        for side in ('left', 'right'):
            k = r.choice(['default', 'default', 'flux', 'composition'])
            if k == 'flux':
                bcs[(e, side)] = ('flux', r.uniform(-1e-9, 1e-9))
            elif k == 'composition':
                bcs[(e, side)] = ('composition', r.uniform(0.02, 0.8 / n))
    c.update(profile=prof, bcs=bcs, N=r.choice([4, 5, 7]), hfunc=r.choice(HFUNCS), eps=r.choice([0.0, 0.01, 0.05]),
             lab=r.choice([1, 1.5, 2]), part='diffusion-stub')
    return c


def run_diffusion_stub(c, elements_user, log):
    """the REAL diffusion-side code (profile / boundary-condition mapping, computeMobility, computeHomogenizationFunction,
    _computeSingleMobility, getFluxes / getdXdt / getDt of both diffusion models) on the stubbed backend.
    Everything is returned keyed by ELEMENT NAME."""
    from kawin.diffusion import SinglePhaseModel, HomogenizationModel
    from kawin.diffusion.DiffusionParameters import CompositionProfile, BoundaryConditions, computeMobility, _computeSingleMobility
    from kawin.diffusion.HomogenizationParameters import HomogenizationParameters, computeHomogenizationFunction
    st = Stub(elements_user, c['salt'], log)
    sol = elements_user[1:]
    T = c['T']

    def mk(cls, phases, **kw):
        cp = CompositionProfile()
        for e in sol:
            kind, a, b, z0 = c['profile'][e]
            if kind == 'linear':
                cp.addLinearCompositionStep(e, a, b)
            elif kind == 'step':
                cp.addStepCompositionStep(e, a, b, z0)
            else:
                cp.addLinearCompositionStep(e, a, a); cp.addSingleCompositionStep(e, b, z0)
        bc = BoundaryConditions()
        for (e, side), (k, val) in c['bcs'].items():
            bc.setBoundaryCondition(side, k, val, e)
        m = cls([-1.0, 1.0], c['N'], list(elements_user), phases, thermodynamics=st.th, compositionProfile=cp, boundaryConditions=bc, **kw)
        m.setTemperature(T)
        return m

    out = {}
    by = lambda arr, names: {e: np.array(arr[i], dtype=float) for i, e in enumerate(names)}
    with st.patched() as th:
        at('SinglePhaseModel.setup'); sp = mk(SinglePhaseModel, ['MAT'])
        sp.setup()
        out['x0'] = by(sp.x, sol)
        at('SinglePhaseModel.getFluxes'); fl, dt = sp.getFluxes()
        out['sp_flux'] = by(fl, sol); out['sp_dt'] = float(dt)
        at('SinglePhaseModel.getdXdt'); t, x = sp.getCurrentX(); dxdt = sp.getdXdt(t, x)
        out['sp_dxdt'] = by(dxdt[0], sol); out['sp_getDt'] = float(sp.getDt(dxdt))
        hp = HomogenizationParameters(getattr(HomogenizationParameters, c['hfunc']), eps=c['eps'])
        hp.setLabyrinthFactor(c['lab'])
        hm = mk(HomogenizationModel, ['MAT', 'PREC'], homogenizationParameters=hp)
        at('HomogenizationModel.setup'); hm.setup()
        at('HomogenizationModel.getFluxes'); fl, dt = hm.getFluxes()
        out['hm_flux'] = by(fl, sol); out['hm_dt'] = float(dt)
        at('HomogenizationModel.getdXdt'); t, x = hm.getCurrentX(); dxdt = hm.getdXdt(t, x)
        out['hm_dxdt'] = by(dxdt[0], sol); out['hm_getDt'] = float(hm.getDt(dxdt))
        xs = hm.x.T.copy()
        at('computeHomogenizationFunction'); amob, mu = computeHomogenizationFunction(th, xs, T, hp)
        out['h_mob'] = by(np.atleast_2d(amob).T, elements_user); out['h_mu'] = by(np.atleast_2d(mu).T, elements_user)
        at('computeMobility'); md = computeMobility(th, xs, T)
        out['m_mu'] = by(np.array(md.chemical_potentials).T, elements_user)
        out['m_mob'] = by(np.transpose(np.array(md.mobility), (2, 0, 1)), elements_user)     # per element: (node, phase)
        # sibling consistency: the homogenized mobility is the homogenization function of computeMobility's output
        ref = np.array([hp.homogenizationFunction(np.array(md.mobility[i]), np.array(md.phase_fractions[i]), labyrinth_factor=hp.labyrinthFactor)
                        for i in range(len(xs))])
        out['h_mob_from_m'] = by(ref.T, elements_user)
        unsort = np.argsort(np.argsort(th.elements[:-1]))
        at('_computeSingleMobility'); one = _computeSingleMobility(th, xs[0], T, unsort)
        out['single_mu'] = by(one.chemical_potentials, elements_user)
        # what the backend answers at node 0, by element name (independent of all wrapper code)
        d = st.data_for(xs[0], T)
        out['backend_mu0'] = {e: float(d['mu2'][st.names_sorted.index(e)]) for e in elements_user}
        out['backend_mob0'] = {e: float(d['mob'][st.names_sorted.index(e)]) for e in elements_user}
        out['backend_XM0'] = {e: float(d['XM'][st.names_sorted.index(e)]) for e in elements_user}
        out['mu2_sorted0'] = d['mu2']
    return out


def part_diffusion_stub(ctx, res, N, use_model):
    vlib.use_repo()
    from kawin.thermo.Mobility import interstitials
    cases, lines = [], []
    for _ in range(N):
        s = ctx.rng.getrandbits(48)
        c = gen_diffusion_case(random.Random(s)); c['seed'] = s
        els, p = c['elements'], c['perm']
        els2 = [els[0]] + [els[1:][i] for i in p]

        def _run():
            with warnings.catch_warnings():
                warnings.simplefilter('ignore')
                return run_diffusion_stub(c, els, {}), run_diffusion_stub(c, els2, {})
        ok, val = guard(res, 'diffusion-stub', {kk: (vv if kk not in ('profile', 'bcs') else str(vv)) for kk, vv in c.items()}, _run)
        if not ok:
            continue
        o1, o2 = val
        cases.append((c, els2, o1, o2))
        lines.append('perm.ref %s %s %s %s' % (els[0], enc_names(els[1:]), enc_list(c['x']), enc_list(o1['mu2_sorted0'])))
    model = run_model(res, lines, use_model)
    for k, (c, els2, o1, o2) in enumerate(cases):
        def _body():
            els = c['elements']
            srt = np.argsort(els).tolist(); uns = np.argsort(srt).tolist()
            res.case(('diffusion-stub', tuple(els), tuple(c['perm'])), srt != uns)
            res.count('B2:elements=%d' % len(els)); res.count('B2:sort!=unsort(full list)' if srt != uns else 'B2:sort==unsort(full list)')
            desc = {kk: (vv if kk not in ('profile', 'bcs') else str(vv)) for kk, vv in c.items()}
            # ---- direct oracle: by element NAME nothing depends on the listing
            scal = ['sp_dt', 'sp_getDt', 'hm_dt', 'hm_getDt']
            for q in scal:
                if not close(o1[q], o2[q], 1e-9):
                    res.violate('elem-order:diffusion:' + q, 'time step %s of the diffusion model depends on the listing order of the elements' % q, desc, o2[q], o1[q])
            for q in ('x0', 'sp_flux', 'sp_dxdt', 'hm_flux', 'hm_dxdt', 'h_mob', 'h_mu', 'm_mu', 'm_mob', 'single_mu'):
                sc = max(float(np.max(np.abs(v_))) for v_ in o1[q].values()) if q in ('sp_flux', 'sp_dxdt', 'hm_flux', 'hm_dxdt') else 0.0
                for e in o1[q]:
                    a, b = o1[q][e], o2[q][e]
                    if a.shape != b.shape or np.max(np.abs(a - b) - 1e-9 * np.maximum(np.maximum(np.abs(a), np.abs(b)), sc), initial=-1) > 0:
                        res.violate('elem-order:diffusion:' + q, '%s of element %s (by name) depends on the listing order of the elements' % (q, e), dict(desc, listing=els2),
                                    np.asarray(b).tolist(), np.asarray(a).tolist()); break
            # ---- independent references on the first listing
            for e in els:
                if not close(o1['h_mu'][e][0], o1['backend_mu0'][e], 1e-12) or not close(o1['m_mu'][e][0], o1['backend_mu0'][e], 1e-12) \
                        or not close(float(o1['single_mu'][e]), o1['backend_mu0'][e], 1e-12):
                    res.violate('elem-order:diffusion:chemical-potential', 'chemical potential returned for %s is not the backend value of %s' % (e, e), desc,
                                [float(o1['h_mu'][e][0]), float(o1['m_mu'][e][0]), float(o1['single_mu'][e])], o1['backend_mu0'][e]); break
            usum = sum(v_ for e, v_ in o1['backend_XM0'].items() if e not in interstitials)
            for e in els:
                want = o1['backend_mob0'][e] * o1['backend_XM0'][e] / usum
                if not close(o1['m_mob'][e][0, 0], want, 1e-9):
                    res.violate('elem-order:diffusion:mobility', 'computeMobility value for %s is not mobility x u-fraction of %s' % (e, e), desc, float(o1['m_mob'][e][0, 0]), want); break
            for e in els:
                if rel(o1['h_mob'][e], o1['h_mob_from_m'][e]) > 1e-9 or rel(o1['h_mu'][e], o1['m_mu'][e]) > 1e-12:
                    res.violate('elem-order:diffusion:homogenization-vs-computeMobility', 'computeHomogenizationFunction and computeMobility disagree for element %s' % e, desc,
                                o1['h_mob'][e].tolist(), o1['h_mob_from_m'][e].tolist()); break
            # ---- model: wrapVecFull with the backend answering the alphabetical chemical potentials
            if model is not None:
                t = Toks(model[k])
                if not t.ok:
                    res.disagree('perm.ref model error', desc, 'ok', t.err); return
                t.flts(); t.flts(); mfull = t.flts()
                got = [float(o1['h_mu'][e][0]) for e in els]
                if mfull != got:
                    res.disagree('wrapVecFull vs computeHomogenizationFunction chemical potentials', desc, got, mfull)
        guard(res, 'diffusion-stub:analysis', {kk: (vv if kk not in ('profile', 'bcs') else str(vv)) for kk, vv in c.items()}, _body)


# =========================================================================== part C: step rules and site competition
def gen_step_case(r):
    P = r.choice([1, 2, 2, 2, 3, 3, 3, 4])
    n = r.choice([0, 1, 2, 5])
    common = dict(
        n=n, times=sorted(r.uniform(0, 50) for _ in range(n + 1)), finalTime=r.choice([60.0, 1e3, 1e6]),
        Tprev=r.choice([700.0, 800.0]), vmAlpha=r.choice([1e-5, 7.1e-6]),
        grainSize=r.choice([10, 50, 100]), aspect=r.choice([1, 1.5]), disl=10 ** r.uniform(12, 15), bulkN0=10 ** r.uniform(24, 29),
        checks=[r.random() > 0.08 for _ in range(5)], maxVolumeChange=r.choice([1e-3, 1e-3, 1e-2, 1e-5]),
        dtScale=r.choice([1e-3, 1e-1]), minNucleationRate=r.choice([1e-5, 1.0]),
    )
    if common['times'][0] != 0:
        common['times'][0] = 0.0
    common['Tcur'] = common['Tprev'] + r.choice([0, 0, 0, 0.5, 3.0, -5.0])
    dens_scale = r.choice(['none', 'low', 'mid', 'high'])
    phases = []
    for i in range(P):
        bins = r.choice([4, 7, 12])
        site = r.choice(SITES)
        ps = r.choice(['zero', 'flat', 'peak', 'random', 'random'])
        sc = {'none': 0.0, 'low': 10 ** r.uniform(5, 12), 'mid': 10 ** r.uniform(14, 20), 'high': 10 ** r.uniform(22, 27)}[dens_scale] * r.uniform(0.2, 5)
        rr = np.random.default_rng(r.getrandbits(40))
        if ps == 'zero' or sc == 0:
            psd = np.zeros(bins)
        elif ps == 'flat':
            psd = np.full(bins, sc)
        elif ps == 'peak':
            psd = np.zeros(bins); psd[rr.integers(0, bins)] = sc
        else:
            psd = np.where(rr.random(bins) < 0.7, sc * rr.uniform(0.1, 2, bins), 0.0)
        gk = r.choice(['pos', 'neg', 'mixed', 'zero', 'mixed'])
        gmag = 10 ** r.uniform(-13, -8)
        growth = {'pos': gmag * rr.uniform(0.1, 1, bins + 1), 'neg': -gmag * rr.uniform(0.1, 1, bins + 1),
                  'mixed': gmag * rr.uniform(-1, 1, bins + 1), 'zero': np.zeros(bins + 1)}[gk]
        nk = r.choice(['quiet', 'rising', 'falling', 'equal', 'zero', 'huge'])
        base = 10 ** r.uniform(-2, 18)
        nuc_prev, nuc_cur = {'quiet': (1e-7, 1e-8), 'rising': (base, base * r.uniform(1.01, 30)), 'falling': (base * r.uniform(1.01, 30), base),
                             'equal': (base, base), 'zero': (0.0, 0.0), 'huge': (base * 1e8, base * 2e8)}[nk]
        rk = r.choice(['quiet', 'active', 'active', 'static', 'neg-dG', 'prev-zero'])
        rc = 10 ** r.uniform(-10, -8)
        rc_prev, rc_cur, dG = {'quiet': (0.0, 0.0, -1e7), 'active': (rc, rc * r.uniform(0.7, 1.4), 1e8), 'static': (rc, rc, 1e8),
                               'neg-dG': (rc, rc * 1.1, -1e8), 'prev-zero': (0.0, rc, 1e8)}[rk]
        phases.append(dict(
            name='P%d' % i, site=site, bins=bins, cMin=r.choice([1e-10, 3e-10]), cMax=r.choice([1e-8, 5e-9]),
            psd=psd.tolist(), growth=growth.tolist(), dissIdx=r.choice([0, 0, 0, 1, bins // 2]),
            nucPrev=nuc_prev, nucCur=nuc_cur, rcPrev=rc_prev, rcCur=rc_cur, dG=dG,
            Rnuc=r.choice([0.0, 10 ** r.uniform(-10, -8.5)]), vmBeta=r.choice([1e-5, 1.2e-5, 8e-6]),
            gamma=r.uniform(0.2, 0.5), gbk=r.uniform(0.1, 0.78),
            x=(psd * rr.uniform(0.5, 1.5, bins)).tolist() if r.random() < 0.5 else psd.tolist(),
            parents=[], kinds=(ps, gk, nk, rk)))
    for i, ph in enumerate(phases):
        if P > 1 and r.random() < 0.35:
            others = [q['name'] for j, q in enumerate(phases) if j != i]
            ph['parents'] = r.sample(others, r.randint(1, len(others)))
    return dict(common=common, phases=phases)


_PP = {}


def build_model(case, order, elements=('X',)):
    """a real PrecipitateModel with the phases listed in `order` and the hand-set state of `case`"""
    from kawin.precipitation import PrecipitateModel, VolumeParameter
    from kawin.precipitation.PrecipitationParameters import PrecipitationData
    from kawin.precipitation.PrecipitationParameters import PrecipitateParameters
    c = case['common']; phs = [case['phases'][i] for i in order]
    # one parameter object per PHASE (building one costs ~20 ms: Lebedev nodes of the strain-energy default);
    # the model is handed the objects in the listed order
    pps = []
    for p in phs:
        if p['name'] not in _PP:
            _PP[p['name']] = PrecipitateParameters(p['name'])
        _PP[p['name']].parentPhases = []
        pps.append(_PP[p['name']])
    m = PrecipitateModel(precipitateParameters=pps, elements=list(elements))
    m.setVolumeAlpha(c['vmAlpha'], VolumeParameter.MOLAR_VOLUME, 4)
    m.setNucleationDensity(grainSize=c['grainSize'], aspectRatio=c['aspect'], dislocationDensity=c['disl'], bulkN0=c['bulkN0'])
    for p in phs:
        m.setPBMParameters(cMin=p['cMin'], cMax=p['cMax'], bins=p['bins'], minBins=max(2, p['bins'] // 2), maxBins=2 * p['bins'], phase=p['name'])
        m.setVolumeBeta(p['vmBeta'], VolumeParameter.MOLAR_VOLUME, 4, phase=p['name'])
        m.setInterfacialEnergy(p['gamma'], phase=p['name'])
        m.setNucleationSite(p['site'], phase=p['name'])
        m.precipitateParameters[m.phaseIndex(p['name'])].nucleation.gbEnergy = 2 * p['gamma'] * p['gbk']
    for p in phs:
        if p['parents']:
            m.setParentPhases(p['name'], p['parents'])
    cs = m.constraints
    cs.checkPSD, cs.checkNucleation, cs.checkTemperature, cs.checkRcrit, cs.checkVolumePre = c['checks']
    cs.maxVolumeChange = c['maxVolumeChange']; cs.dtScale = c['dtScale']; cs.minNucleationRate = c['minNucleationRate']
    n = c['n']
    m.pData = PrecipitationData(m.phases, m.elements, N=n + 1)
    m.pData.time[:] = c['times']
    m.pData.temperature[:] = c['Tprev']; m.pData.temperature[n] = c['Tcur']
    for j, p in enumerate(phs):
        m.PBM[j].PSD = np.array(p['psd'], dtype=float)
        m.pData.nucRate[:, j] = p['nucPrev']; m.pData.nucRate[n, j] = p['nucCur']
        m.pData.Rcrit[:, j] = p['rcPrev']; m.pData.Rcrit[n, j] = p['rcCur']
        m.pData.drivingForce[:, j] = p['dG']; m.pData.Rnuc[:, j] = p['Rnuc']
        m.dissolutionIndex[j] = p['dissIdx']
    m.growth = [np.array(p['growth'], dtype=float) for p in phs]
    m.finalTime = c['finalTime']
    return m, phs


def eval_model(m, phs, case):
    """all per-phase-loop quantities of the REAL objects"""
    c = case['common']; cs = m.constraints; n = m.pData.n
    dtPrev = 0.01 if n == 0 else m.pData.time[n] - m.pData.time[n - 1]
    dtMax = m.finalTime - m.pData.time[n]
    VmB = [pp.volume.Vm for pp in m.precipitateParameters]
    nucP = [pp.nucleation for pp in m.precipitateParameters]
    at('computeDTfrom-getDt')
    out = dict(
        dtPSD=float(cs.computeDTfromPSD(n, m.pData.temperature, m.PBM, m.growth, m.dissolutionIndex, m.phases, dtMax)),
        dtNuc=float(cs.computeDTfromNucleationRate(n, m.pData.nucRate, m.phases, dtPrev, dtMax)),
        dtTemp=float(cs.computeDTfromTemperature(n, m.pData.temperature, dtPrev, dtMax)),
        dtRcrit=float(cs.computeDTfromRcrit(n, m.pData.Rcrit, m.pData.drivingForce, m.phases, dtPrev, dtMax)),
        dtVol=float(cs.computeDTfromVolume(n, m.pData.nucRate, m.pData.Rnuc, m.PBM, m.growth, m.matrixParameters.volume.Vm, VmB, nucP, m.phases, dtMax)),
        dt=float(m.getDt(None)))
    at('_calcNucleationSites')
    x = [np.array(p['x'], dtype=float) for p in phs]
    out['sites'] = {p['name']: float(m._calcNucleationSites(float(m.pData.time[n]), x, j)) for j, p in enumerate(phs)}
    # magnitude of the terms that are added / subtracted for each phase (rounding scale of the competition sums)
    from kawin.Constants import AVOGADROS_NUMBER
    ns = m.matrixParameters.nucleationSites
    n0 = {'bulk': ns.bulkN0, 'dislocations': ns.bulkN0, 'grain boundaries': ns.GBareaN0, 'grain edges': ns.GBedgeN0, 'grain corners': ns.GBcornerN0}
    idx = {p['name']: j for j, p in enumerate(phs)}
    out['scale'] = {}
    for j, p in enumerate(phs):
        par = sum(4 * np.pi * float(np.sum(x[idx[q]] * m.PBM[idx[q]].PSDsize ** 2)) * (AVOGADROS_NUMBER / VmB[idx[q]]) ** (2 / 3) for q in p['parents'])
        out['scale'][p['name']] = float(n0[p['site']] + par)
    return out


def ref_rules(case, dtMax):
    """scalar re-statement of the four rules, one limit per phase, written from the docstrings of getDt"""
    c = case['common']; n = c['n']; chk = c['checks']
    dtPrev = 0.01 if n == 0 else c['times'][n] - c['times'][n - 1]
    out = {}
    lims = [dtMax]
    if n > 0 and c['Tcur'] == c['Tprev']:
        for p in case['phases']:
            b = np.linspace(p['cMin'], p['cMax'], p['bins'] + 1)
            sel = [abs(p['growth'][j]) for j in range(p['dissIdx'], p['bins']) if p['psd'][j] > 0]
            lims.append(dtMax if (not sel or max(sel) == 0) else 0.4 * (b[1] - b[0]) / max(sel))
    out['dtPSD'] = min(lims) if chk[0] else dtMax
    lims = []
    for p in case['phases']:
        a, b = p['nucPrev'], p['nucCur']
        if n > 0:
            ok = a > c['minNucleationRate'] and b > c['minNucleationRate'] and a != b
            lims.append(0.5 * dtPrev / abs(math.log10(a / b)) if ok else dtMax)
        else:
            lims.append(1e5 / b if b * dtPrev > 1e5 else dtMax)
    out['dtNuc'] = min(lims) if chk[1] else dtMax
    dT = c['Tcur'] - c['Tprev']
    out['dtTemp'] = (1 * dtPrev / dT if dT > 1 else dtMax) if (chk[2] and n > 0) else dtMax
    lims = []
    for p in case['phases']:
        ok = p['rcPrev'] > 0 and p['rcCur'] != p['rcPrev'] and p['dG'] > 0
        lims.append(0.01 * dtPrev / abs((p['rcCur'] - p['rcPrev']) / p['rcPrev']) if ok else dtMax)
    out['dtRcrit'] = min(lims) if (chk[3] and n > 0) else dtMax
    return out


RULES = [('dtPSD', 'computeDTfromPSD'), ('dtNuc', 'computeDTfromNucleationRate'), ('dtTemp', 'computeDTfromTemperature'),
         ('dtRcrit', 'computeDTfromRcrit'), ('dtVol', 'computeDTfromVolume'), ('dt', 'getDt')]


def enc_step(case, m, phs):
    from kawin.Constants import AVOGADROS_NUMBER
    c = case['common']; cs = m.constraints; ns = m.matrixParameters.nucleationSites
    n = c['n']
    ids = {p['name']: int(p['name'][1:]) for p in case['phases']}
    toks = [enc_bool(b) for b in c['checks']]
    toks += [f2b(v) for v in (cs.minNucleationRate, cs.maxNucleationRateChange, cs.maxNonIsothermalDT, cs.maxRcritChange,
                              cs.maxVolumeChange, cs.dtScale, 0.4)]
    toks += [f2b(v) for v in (ns.bulkN0, ns.dislocationN0, ns.GBareaN0, ns.GBedgeN0, ns.GBcornerN0, AVOGADROS_NUMBER, m.matrixParameters.volume.Vm)]
    toks += [str(n), f2b(c['times'][n - 1] if n > 0 else 0.0), f2b(c['times'][n]), f2b(c['finalTime']), f2b(c['Tprev'] if n > 0 else c['Tcur']),
             f2b(c['Tcur']), f2b(m.matrixParameters.volume.Vm)]
    toks.append(str(len(phs)))
    for j, p in enumerate(phs):
        nb = m.precipitateParameters[j].nucleation
        isgb = SITES.index(p['site']) >= 2
        toks += [str(ids[p['name']]), str(SITES.index(p['site'])), enc_list(m.PBM[j].PSD), enc_list(m.PBM[j].PSDsize), enc_list(m.PBM[j].PSDbounds),
                 enc_list(p['growth']), str(p['dissIdx'])]
        toks += [f2b(v) for v in (p['nucPrev'], p['nucCur'], p['rcPrev'], p['rcCur'], p['dG'], p['Rnuc'], m.precipitateParameters[j].volume.Vm,
                                  nb.areaFactor, nb.volumeFactor, nb.gbRemoval if isgb else 0.0, nb.GBk if isgb else 0.0)]
        toks += [enc_ilist([ids[q] for q in p['parents']]), enc_list(p['x'])]
    return 'kwn.step ' + ' '.join(toks)


def part_steps(ctx, res, N, use_model, max_perms=6):
    vlib.use_repo()
    cases, lines = [], []
    for _ in range(N):
        s = ctx.rng.getrandbits(48)
        case = gen_step_case(random.Random(s)); case['seed'] = s
        P = len(case['phases'])
        perms = list(itertools.permutations(range(P)))
        if len(perms) > max_perms:
            rr = random.Random(s + 1); perms = [perms[0]] + rr.sample(perms[1:], max_perms - 1)
        def _run():
            with warnings.catch_warnings():
                warnings.simplefilter('ignore')
                outs, line = [], None
                for order in perms:
                    at('build_model'); m, phs = build_model(case, order)
                    outs.append((order, eval_model(m, phs, case)))
                    if order == perms[0]:
                        at('encode'); line = enc_step(case, m, phs)
            return outs, line
        ok, val = guard(res, 'steps', dict(part='steps', seed=s), _run)
        if not ok:
            continue
        cases.append((case, val[0])); lines.append(val[1])
    model = run_model(res, lines, use_model)
    for k, (case, outs) in enumerate(cases):
        def _body():
            c = case['common']; P = len(case['phases'])
            base = outs[0][1]
            dtMax = c['finalTime'] - c['times'][c['n']]
            binding = [q for q, _ in RULES[:5] if base[q] != dtMax]
            kinds = tuple(p['site'] for p in case['phases'])
            res.case(('steps', P, c['n'], kinds, case['seed']), P >= 2 and len(binding) > 0)
            res.count('C:phases=%d' % P); res.count('C:n=0' if c['n'] == 0 else 'C:n>0')
            for q in binding:
                res.count('C:binding-' + q)
            for p in case['phases']:
                res.count('C:site-' + p['site'])
                if p['parents']:
                    res.count('C:with-parent-phases')
            if base['dt'] not in [base[q] for q, _ in RULES[:5]]:
                res.count('C:dt=dtPropose')
            desc = dict(part='steps', seed=case['seed'], n=c['n'], phases=[p['name'] + ':' + p['site'] for p in case['phases']],
                        kinds=[p['kinds'] for p in case['phases']], checks=c['checks'])
            if k < 1:
                res.sample(dict(desc, real=base))
            # ---- direct oracle: every listing of the phases gives the same step and the same sites per phase
            for order, o in outs[1:]:
                d2 = dict(desc, listing=[case['phases'][i]['name'] for i in order])
                for q, fn in RULES:
                    if not close(o[q], base[q], 1e-12):
                        res.violate('phase-order:' + fn, '%s depends on the order in which the phases are listed' % fn, d2, o[q], base[q])
                for name, v in o['sites'].items():
                    b = base['sites'][name]
                    if abs(v - b) > 1e-12 * max(abs(v), abs(b), base['scale'][name]):
                        res.violate('phase-order:_calcNucleationSites', 'nucleation sites of phase %s depend on the listing order' % name, d2, v, b)
            # independent scalar reference: every rule is the smallest of the per-phase limits (no phase is ignored)
            refs = ref_rules(case, dtMax)
            for q, fn in RULES[:4]:
                if not close(base[q], refs[q], 1e-9):
                    res.violate('phase-order:' + fn, '%s is not the smallest of the per-phase limits' % fn, desc, base[q], refs[q])
            # the same for the repaired volume rule
            if c['checks'][4]:
                m, phs = build_model(case, tuple(range(P)))
                lim = []
                for j, p in enumerate(phs):
                    g = np.array(p['growth']); dvi = m.PBM[j].PSD * m.PBM[j].PSDsize ** 2 * 0.5 * (g[1:] + g[:-1]); dvi[dvi < 0] = 0
                    nb = m.precipitateParameters[j].nucleation
                    dv = m.matrixParameters.volume.Vm / m.precipitateParameters[j].volume.Vm * (nb.areaFactor * dvi.sum() + nb.volumeFactor * p['nucCur'] * p['Rnuc'] ** 3)
                    lim.append(c['maxVolumeChange'] / (2 * abs(dv)) if dv != 0 else dtMax)
                if not close(base['dtVol'], min(lim), 1e-9):
                    res.violate('phase-order:computeDTfromVolume', 'computeDTfromVolume is not the smallest per-phase limit (a phase is ignored)', desc, base['dtVol'], min(lim))
            # ---- model correspondence
            if model is None:
                return
            t = Toks(model[k])
            if not t.ok:
                res.disagree('kwn.step model error', desc, 'ok', t.err); return
            mv = t.flts(); msites = t.flts()
            names = ['dtPSD', 'dtNuc', 'dtTemp', 'dtRcrit', 'dtVol', 'dtVolOld', 'dt', 'dtOld']
            md = dict(zip(names, mv))
            for q, fn in RULES:
                if not close(base[q], md[q], 1e-9):
                    res.disagree(fn, desc, base[q], md[q])
            if md['dtVolOld'] != md['dtVol']:
                res.count('C:old-volume-rule-differs')
            for j, p in enumerate(case['phases']):
                a, b = base['sites'][p['name']], msites[j]
                if abs(a - b) > 1e-9 * max(abs(a), abs(b), base['scale'][p['name']]):
                    res.disagree('_calcNucleationSites ' + p['name'], desc, a, b)
        guard(res, 'steps:analysis', dict(part='steps', seed=case['seed']), _body)


# =========================================================================== part C2: the per-phase update of a step
def gfun(ph, bounds):
    """growth rate of a phase as a function of its OWN data only (stands for _growthRate: an arbitrary per-phase backend)"""
    b = np.asarray(bounds, dtype=float)
    return ph['gamp'] * (1.0 / ph['grc'] - 1.0 / b) / b


def gen_update_case(r):
    case = gen_step_case(r)
    P = r.choice([2, 2, 3, 3, 4])
    while len(case['phases']) < P:
        extra = gen_step_case(r)['phases']
        for q in extra:
            if len(case['phases']) < P:
                q = dict(q, name='P%d' % len(case['phases']), parents=[]); case['phases'].append(q)
    c = case['common']
    if c['n'] == 0:
        c['n'] = 1; c['times'] = [0.0, r.uniform(0.5, 5)]
    if r.random() < 0.8:
        c['Tcur'] = c['Tprev']            # isothermal step: the PSD rule is active
    c['checks'] = [True] * 5
    for ph in case['phases']:
        ph['parents'] = []
        bins = r.choice([12, 16, 24]); ph['bins'] = bins
        ph['cMin'] = r.choice([1e-10, 2e-10]); ph['cMax'] = r.choice([6e-9, 1e-8])
        size = np.linspace(ph['cMin'], ph['cMax'], bins + 1); size = 0.5 * (size[1:] + size[:-1])
        kind = r.choice(['lognormal', 'lognormal', 'lognormal', 'tail-full', 'small', 'empty'])
        N = 10 ** r.uniform(18, 24)
        if kind == 'empty':
            psd = np.zeros(bins)
        else:
            r0 = {'lognormal': r.uniform(0.15, 0.6), 'tail-full': r.uniform(0.7, 0.95), 'small': r.uniform(0.03, 0.1)}[kind] * ph['cMax']
            sg = r.uniform(0.2, 0.5) if kind != 'small' else 0.15
            w = 1 / (size * sg * np.sqrt(2 * np.pi)) * np.exp(-np.log(size / r0) ** 2 / (2 * sg ** 2))
            psd = N * w / np.sum(w)
        ph['psd'] = psd.tolist()
        ph['xnew'] = (psd * np.random.default_rng(r.getrandbits(32)).uniform(0.8, 1.2, bins)).tolist()
        ph['gamp'] = 10 ** r.uniform(-20, -17); ph['grc'] = r.choice([0.2, 0.5, 2.0]) * ph['cMax'] * r.uniform(0.3, 1.0)
        if kind == 'small' or r.random() < 0.15:
            ph['grc'] = 10 * ph['cMax']       # everything dissolves: adjustSizeClassesEuler(checkDissolution=True)
        ph['growth'] = gfun(ph, np.linspace(ph['cMin'], ph['cMax'], bins + 1)).tolist()
        ph['rdf'] = r.choice([0, 0, 0, 1, 3]); ph['dissIdx'] = r.choice([0, 0, 2])
        ph['dG'] = -1e7 if r.random() < 0.08 else 1e8
        ph['kinds'] = (kind,)
    return case


def run_update(case, order):
    """hand-set multi-phase model -> REAL _updateParticleSizeDistribution -> per-phase state (by name) and the step rules"""
    m, phs = build_model(case, order, elements=('X', 'Y'))
    P = len(phs); n = m.pData.n
    m.PSDXalpha = [None] * P; m.PSDXbeta = [None] * P
    for j, p in enumerate(phs):
        m.RdrivingForceIndex[j] = p['rdf']
        m.eqAspectRatio[j] = np.ones(p['bins'] + 1)
    # like the real _growthRate, a phase whose growth calculation failed (negative driving force, no equilibrium) keeps self.growth[p]
    m._growthRate = lambda Y: ([(m.growth[j] if p['dG'] < 0 else gfun(p, m.PBM[j].PSDbounds)) for j, p in enumerate(phs)], Y)
    x = [np.array(p['xnew'], dtype=float) for p in phs]
    at('_updateParticleSizeDistribution'); m._updateParticleSizeDistribution(float(m.pData.time[n]), x)
    at('computeDTfrom-getDt-after-update')
    st = {}
    for j, p in enumerate(phs):
        st[p['name']] = dict(PSD=np.array(m.PBM[j].PSD, dtype=float), bounds=np.array(m.PBM[j].PSDbounds, dtype=float), bins=int(m.PBM[j].bins),
                             dissolutionIndex=int(m.dissolutionIndex[j]), RdrivingForceIndex=int(m.RdrivingForceIndex[j]),
                             growth=np.array(m.growth[j], dtype=float), eqAspectRatio=np.array(m.eqAspectRatio[j], dtype=float))
    cs = m.constraints
    dtPrev = m.pData.time[n] - m.pData.time[n - 1]; dtMax = m.finalTime - m.pData.time[n]
    VmB = [pp.volume.Vm for pp in m.precipitateParameters]; nucP = [pp.nucleation for pp in m.precipitateParameters]
    rules = dict(
        dtPSD=float(cs.computeDTfromPSD(n, m.pData.temperature, m.PBM, m.growth, m.dissolutionIndex, m.phases, dtMax)),
        dtVol=float(cs.computeDTfromVolume(n, m.pData.nucRate, m.pData.Rnuc, m.PBM, m.growth, m.matrixParameters.volume.Vm, VmB, nucP, m.phases, dtMax)),
        dt=float(m.getDt(None)))
    pbmdt = {p['name']: float(m.PBM[j].getDTEuler(dtMax, m.growth[j], m.dissolutionIndex[j])) for j, p in enumerate(phs)}
    return st, rules, pbmdt


FIELDS = ['bins', 'dissolutionIndex', 'RdrivingForceIndex', 'PSD', 'bounds', 'growth', 'eqAspectRatio']


def state_diff(a, b):
    for f in FIELDS:
        va, vb = a[f], b[f]
        if isinstance(va, int):
            if va != vb:
                return f, va, vb
        elif va.shape != vb.shape or rel(va, vb) > 1e-12:
            return f, va.tolist()[:8], vb.tolist()[:8]
    return None


def part_update(ctx, res, N, use_model=False, max_perms=4):
    vlib.use_repo()
    for _ in range(N):
        s = ctx.rng.getrandbits(48)
        def _body():
            case = gen_update_case(random.Random(s)); case['seed'] = s
            P = len(case['phases'])
            perms = list(itertools.permutations(range(P)))
            # always include the reversed listing and a rotation (every phase is first / last in some listing)
            want = [perms[0], tuple(reversed(range(P))), tuple(list(range(1, P)) + [0])]
            rest = [q for q in perms if q not in want]
            random.Random(s + 1).shuffle(rest)
            perms = list(dict.fromkeys(want + rest))[:max_perms]
            with warnings.catch_warnings():
                warnings.simplefilter('ignore')
                outs = [(o, run_update(case, o)) for o in perms]
                singles = {case['phases'][i]['name']: run_update(case, (i,)) for i in range(P)}
            base_st, base_rules, base_pbm = outs[0][1]
            changed = [nm for nm, st_ in base_st.items() if st_['bins'] != [p for p in case['phases'] if p['name'] == nm][0]['bins']]
            ndiss = sum(1 for st_ in base_st.values() if st_['dissolutionIndex'] > 0)
            res.case(('update', P, case['seed']), ndiss >= 1)
            res.count('C2:phases=%d' % P); res.count('C2:phases-with-dissolution-index>0', ndiss); res.count('C2:re-meshed-phases', len(changed))
            if base_rules['dtPSD'] == base_rules['dt']:
                res.count('C2:PSD-rule-binding')
            for p in case['phases']:
                res.count('C2:psd-' + p['kinds'][0])
            desc = dict(part='update', seed=s, phases=[p['name'] + ':' + p['kinds'][0] for p in case['phases']], n=case['common']['n'])
            # ---- direct oracle: by phase NAME the state written by the update and the following getDt do not depend on the listing
            for o, (st_, rules, pbm) in outs[1:]:
                d2 = dict(desc, listing=[case['phases'][i]['name'] for i in o])
                for nm in base_st:
                    df = state_diff(base_st[nm], st_[nm])
                    if df:
                        res.violate('phase-order:update:' + df[0], '_updateParticleSizeDistribution: %s of phase %s depends on the order in which the phases are listed' % (df[0], nm), d2, df[2], df[1])
                    if not close(pbm[nm], base_pbm[nm], 1e-12):
                        res.violate('phase-order:update:getDTEuler', 'PSD step limit of phase %s after the update depends on the listing order' % nm, d2, pbm[nm], base_pbm[nm])
                for q in ('dtPSD', 'dtVol', 'dt'):
                    if not close(rules[q], base_rules[q], 1e-12):
                        res.violate('phase-order:getDt-after-update', '%s after the real per-phase update depends on the order in which the phases are listed' % q, d2, rules[q], base_rules[q])
            # ---- the update is `map` of a per-phase function: each phase ends in the state it reaches when it is the only phase
            for nm, (st1, _, pbm1) in singles.items():
                df = state_diff(st1[nm], base_st[nm])
                if df:
                    res.violate('phase-order:update-vs-single-phase:' + df[0],
                                '_updateParticleSizeDistribution: %s of phase %s in the multi-phase model differs from the same phase updated alone' % (df[0], nm), desc, df[2], df[1])
        guard(res, 'update', dict(part='update', seed=s), _body)


# =========================================================================== part C3: what setup() establishes per phase
SHAPES = ['sphere', 'needle', 'plate', 'cubic']
RGRID = np.geomspace(3e-10, 2e-8, 9)
_TMPL = {}


class StubKWNTherm:
    """thermodynamics for setup(): every answer is an arbitrary function of the precipitate phase's OWN constants
    (driving force, nucleus composition, curvature factors, impingement) - the per-phase backend"""
    numElements = 3

    def __init__(self, consts):
        self.c = consts

    def clearCache(self):
        pass

    def getDrivingForce(self, x, T, precPhase=None, removeCache=False, **k):
        c = self.c[precPhase]
        return np.array(c['dg']), np.array(c['xb'])

    def impingementFactor(self, x, T, precPhase=None, removeCache=False, searchDir=None):
        return self.c[precPhase]['beta']

    def getGrowthAndInterfacialComposition(self, x, T, dG, R, gExtra, precPhase=None, removeCache=False, searchDir=None):
        from kawin.thermo.MultiTherm import _growthRateOutputFromCurvature, CurvatureOutput
        c = self.c[precPhase]
        if c['dg'] < 0:
            return None
        cur = CurvatureOutput(dc=np.array(c['dc']), mc=c['mc'], gba=np.array(c['gba']), beta=c['beta'],
                              c_eq_alpha=np.array(c['cea']), c_eq_beta=np.array(c['ceb']))
        return _growthRateOutputFromCurvature(np.atleast_1d(x), dG, R, gExtra, cur)


def gen_setup_case(r):
    P = r.choice([2, 2, 3])
    phases = []
    for i in range(P):
        shape = r.choice(SHAPES)
        if shape == 'sphere':
            ark, site = 'const', r.choice(SITES)
        else:
            ark, site = r.choice(['const', 'func', 'calc', 'calc']), r.choice(SITES[:2])
        phases.append(dict(
            name='Q%d' % i, shape=shape, ar_kind=ark, ar=r.uniform(1.3, 4.0), ar_slope=r.uniform(0.05, 0.6), site=site,
            gamma=r.uniform(0.08, 0.4), vmBeta=r.choice([1e-5, 1.2e-5, 8e-6]), bins=r.choice([6, 9, 12]),
            cMin=r.choice([1e-10, 2e-10]), cMax=r.choice([5e-9, 1e-8]),
            eig=[r.uniform(0.005, 0.04), r.uniform(0.005, 0.04), r.uniform(0.001, 0.01)], real_search=False,
            ar_tab=(r.uniform(1.0, 1.3), r.uniform(0.3, 3.0)),          # stands for eqAR_bySearch: 1 + a + b*R/cMax
            dg=r.choice([-800.0, r.uniform(800, 6000), r.uniform(800, 6000), r.uniform(800, 6000)]),
            xb=[r.uniform(0.1, 0.4), r.uniform(0.1, 0.4)], beta=10 ** r.uniform(-18, -14),
            dc=[r.uniform(-1e-5, 1e-5), r.uniform(-1e-5, 1e-5)], mc=10 ** r.uniform(-21, -19),
            gba=[[r.uniform(0.1, 1), r.uniform(-0.5, 0.5)], [r.uniform(-0.5, 0.5), r.uniform(0.1, 1)]],
            cea=[r.uniform(0.001, 0.01), r.uniform(0.001, 0.01)], ceb=[r.uniform(0.1, 0.4), r.uniform(0.1, 0.4)]))
    if not any(p['ar_kind'] == 'calc' for p in phases):
        q = r.choice(phases); q['shape'] = r.choice(SHAPES[1:]); q['ar_kind'] = 'calc'; q['site'] = r.choice(SITES[:2])
    gbE = r.uniform(0.1, 0.3)
    for q in phases:       # grain-boundary sites need gbEnergy / (2 gamma) below the site's limit (documented ValueError otherwise)
        if q['site'] in SITES[2:]:
            q['gamma'] = gbE / (2 * r.uniform(0.1, 0.75))
    return dict(phases=phases, T=r.uniform(400, 800), x0=[r.uniform(0.003, 0.01), r.uniform(0.003, 0.01)], vmAlpha=r.choice([1e-5, 7.1e-6]),
                gbE=gbE, grain=r.choice([10, 100]), disl=10 ** r.uniform(12, 15), bulkN0=10 ** r.uniform(26, 29), part='setup')


def run_setup(case, order):
    """REAL PrecipitateModel.setup() (base setup, _setupAspectRatio, tables, first nucleation / growth evaluation) on the
    phases listed in `order`; returns the per-phase state and the per-phase functions on a radius grid, by phase NAME"""
    import copy
    from kawin.precipitation import PrecipitateModel, PrecipitateParameters, MatrixParameters, TemperatureParameters
    if 'pp' not in _TMPL:
        _TMPL['pp'] = PrecipitateParameters('template')
    phs = [case['phases'][i] for i in order]
    pps = []
    at('configure PrecipitateParameters')
    for p in phs:
        pp = copy.deepcopy(_TMPL['pp'])                 # a fresh parameter object per model (construction costs 15 ms)
        pp.name = pp.phase = p['name']
        pp.volume.setVolume(p['vmBeta'], 'VM', 4)
        pp.gamma = p['gamma']
        if p['ar_kind'] == 'func':
            pp.shapeFactor.setPrecipitateShape(p['shape'], (lambda R, a=p['ar'], b=p['ar_slope']: a + b * np.asarray(R) / 1e-9))
        else:
            pp.shapeFactor.setPrecipitateShape(p['shape'], 1 if p['shape'] == 'sphere' else p['ar'])
        pp.nucleation.setNucleationType(p['site'])
        if p['ar_kind'] == 'calc':
            pp.strainEnergy.setElasticConstants(108e9, 61.3e9, 28.5e9)
            pp.strainEnergy.setEigenstrain(p['eig'])
            pp.calculateAspectRatio = True
            if not p['real_search']:
                a, b = p['ar_tab']; cmax = p['cMax']
                pp.strainEnergy.eqAR_bySearch = (lambda Rsph, gamma, shp, a=a, b=b, cmax=cmax: a + b * np.asarray(Rsph) / cmax)
        pps.append(pp)
    mp = MatrixParameters(['X', 'Y'])
    mp.volume.setVolume(case['vmAlpha'], 'VM', 4)
    mp.initComposition = list(case['x0'])
    mp.GBenergy = case['gbE']
    th = StubKWNTherm({p['name']: p for p in case['phases']})
    m = PrecipitateModel(thermodynamics=th, matrixParameters=mp, precipitateParameters=pps, temperatureParameters=TemperatureParameters(case['T']))
    m.setNucleationDensity(grainSize=case['grain'], dislocationDensity=case['disl'], bulkN0=case['bulkN0'])
    for p in phs:
        m.setPBMParameters(cMin=p['cMin'], cMax=p['cMax'], bins=p['bins'], minBins=max(2, p['bins'] // 2), maxBins=2 * p['bins'], phase=p['name'])
    m.finalTime = 1e4
    at('setup'); m.setup()
    st = {}
    for j, p in enumerate(phs):
        pp = m.precipitateParameters[j]; sf = pp.shapeFactor; nb = pp.nucleation
        at('per-phase functions of ' + p['name'])
        d = dict(
            eqAspectRatio=np.array(m.eqAspectRatio[j], dtype=float), bounds=np.array(m.PBM[j].PSDbounds, dtype=float), PSD=np.array(m.PBM[j].PSD, dtype=float),
            aspectRatio=np.array(sf.aspectRatio(RGRID), dtype=float) * np.ones(len(RGRID)),
            eqRadiusFactor=np.array(sf.eqRadiusFactor(RGRID), dtype=float) * np.ones(len(RGRID)),
            kineticFactor=np.array(sf.kineticFactor(RGRID), dtype=float) * np.ones(len(RGRID)),
            thermoFactor=np.array(sf.thermoFactor(RGRID), dtype=float) * np.ones(len(RGRID)),
            particleGibbs=np.array(m.particleGibbs(RGRID, p['name']), dtype=float) * np.ones(len(RGRID)),
            strainEnergy=np.array(pp.computeStrainEnergyFromR(RGRID), dtype=float) * np.ones(len(RGRID)),
            gbEnergy=np.array([nb.gbEnergy, nb.areaFactor, nb.volumeFactor], dtype=float),
            row0=np.array([getattr(m.pData, q)[0, j] for q in ('drivingForce', 'Rcrit', 'Gcrit', 'impingement', 'nucRate', 'Rnuc')], dtype=float),
            xEq=np.concatenate([m.pData.xEqAlpha[0, j], m.pData.xEqBeta[0, j]]),
            growth=np.array(m.growth[j], dtype=float), PSDX=np.array(np.shape(m.PSDXalpha[j]), dtype=float),
            indices=np.array([m.RdrivingForceIndex[j], m.dissolutionIndex[j]], dtype=float))
        st[p['name']] = d
    at('getDt after setup')
    return st, float(m.getDt(None))


def setup_diff(a, b):
    for f in a:
        if a[f].shape != b[f].shape or rel(a[f], b[f]) > 1e-12:
            return f, a[f].tolist()[:6], b[f].tolist()[:6]
    return None


def part_setup(ctx, res, N, use_model=False, real_search=0):
    vlib.use_repo()
    for it in range(N):
        s = ctx.rng.getrandbits(48)
        def _body():
            case = gen_setup_case(random.Random(s)); case['seed'] = s
            if it < real_search:                       # a few cases with the real elastic search (0.2 s per table): small grids
                for p in case['phases']:
                    if p['ar_kind'] == 'calc':
                        p['real_search'] = True; p['bins'] = 3
            P = len(case['phases'])
            listings = list(dict.fromkeys([tuple(range(P)), tuple(reversed(range(P))), tuple(list(range(1, P)) + [0])]))
            with warnings.catch_warnings():
                warnings.simplefilter('ignore')
                outs = [(o, run_setup(case, o)) for o in listings]
                singles = {case['phases'][i]['name']: run_setup(case, (i,)) for i in range(P)}
            base, base_dt = outs[0][1]
            ncalc = sum(1 for p in case['phases'] if p['ar_kind'] == 'calc')
            res.case(('setup', P, s), ncalc >= 1 and P >= 2)
            res.count('C3:phases=%d' % P); res.count('C3:phases-with-computed-aspect-ratio', ncalc)
            for p in case['phases']:
                res.count('C3:shape-' + p['shape']); res.count('C3:ar-' + p['ar_kind'])
            if any(p['real_search'] for p in case['phases']):
                res.count('C3:real-eqAR_bySearch')
            desc = dict(part='setup', seed=s, phases=['%s:%s:%s:%s' % (p['name'], p['shape'], p['ar_kind'], p['site']) for p in case['phases']])
            for o, (st_, dt) in outs[1:]:
                d2 = dict(desc, listing=[case['phases'][i]['name'] for i in o])
                for nm in base:
                    df = setup_diff(base[nm], st_[nm])
                    if df:
                        res.violate('phase-order:setup:' + df[0], 'setup(): %s of phase %s depends on the order in which the phases are listed' % (df[0], nm), d2, df[2], df[1])
                if not close(dt, base_dt, 1e-12):
                    res.violate('phase-order:getDt-after-setup', 'getDt after setup() depends on the order in which the phases are listed', d2, dt, base_dt)
            for nm, (st1, _) in singles.items():
                df = setup_diff(st1[nm], base[nm])
                if df:
                    res.violate('phase-order:setup-vs-single-phase:' + df[0], 'setup(): %s of phase %s in the multi-phase model differs from the same phase set up alone' % (df[0], nm), desc, df[2], df[1])
        guard(res, 'setup', dict(part='setup', seed=s), _body)


# =========================================================================== part D: monitored, real pycalphad
_TH = {}


def therm_pair():
    vlib.use_repo()
    if 'pair' not in _TH:
        from kawin.tests.datasets import NICRAL_TDB
        from kawin.thermo import MulticomponentThermodynamics
        A = MulticomponentThermodynamics(NICRAL_TDB, ['NI', 'AL', 'CR'], ['FCC_A1', 'FCC_L12'], drivingForceMethod='tangent')
        B = MulticomponentThermodynamics(NICRAL_TDB, ['NI', 'CR', 'AL'], ['FCC_A1', 'FCC_L12'], drivingForceMethod='tangent')
        _TH['pair'] = (A, B)
    return _TH['pair']


def part_real_thermo(ctx, res, N, rtol=1e-6):
    ok, pair = guard(res, 'real-thermo:build', dict(part='real-thermo'), therm_pair)
    if not ok:
        return
    A, B = pair
    P = [1, 0]; PF = [0, 2, 1]
    for _ in range(N):
        s = ctx.rng.getrandbits(48); r = random.Random(s)
        def _body():
            u = r.random()
            if u < 0.3:               # clearly undersaturated, unequal solute contents: negative driving force, where the tangent
                # method finds the precipitate composition set collapsed onto the matrix and falls back to sampling
                xa = [r.uniform(0.005, 0.06), r.uniform(0.02, 0.22)]; T = r.uniform(1000, 1400)   # AL, CR
            elif u < 0.8:             # inside the gamma + gamma' region
                xa = [r.uniform(0.095, 0.13), r.uniform(0.05, 0.11)]; T = r.uniform(950, 1090)
            else:
                xa = [r.uniform(0.05, 0.13), r.uniform(0.04, 0.13)]; T = r.uniform(950, 1250)   # AL, CR
            desc = dict(part='real-thermo', seed=s, x_AL_CR=xa, T=T)
            xb = [xa[1], xa[0]]
            got = []
            with warnings.catch_warnings():
                warnings.simplefilter('ignore')
                for meth in ('tangent', 'approximate', 'sampling', 'curvature'):
                    A.setDrivingForceMethod(meth); B.setDrivingForceMethod(meth); A.clearCache(); B.clearCache()
                    dga, xpa = A.getDrivingForce(xa, T, removeCache=True); dgb, xpb = B.getDrivingForce(xb, T, removeCache=True)
                    try:
                        va = [float(dga)] + [float(v_) for v_ in np.atleast_1d(xpa)]
                        vb = [float(dgb)] + [float(v_) for v_ in np.atleast_1d(xpb)[P]]
                        got.append(('driving-force-' + meth, va, vb, rtol))
                    except (TypeError, ValueError):
                        got.append(('driving-force-' + meth, str((dga, xpa)), str((dgb, np.atleast_1d(xpb)[P] if np.ndim(xpb) else xpb)), 0))
                A.setDrivingForceMethod('tangent'); B.setDrivingForceMethod('tangent'); A.clearCache(); B.clearCache()
                Da = A.getInterdiffusivity(xa, T); Db = B.getInterdiffusivity(xb, T)
                got.append(('interdiffusivity', Da, Db[P][:, P], rtol))
                ta = A.getTracerDiffusivity(xa, T); tb = B.getTracerDiffusivity(xb, T)
                got.append(('tracer', ta, tb[PF], rtol))
                from kawin.diffusion.DiffusionParameters import computeMobility
                ma = computeMobility(A, xa, T); mb = computeMobility(B, xb, T)
                if list(ma.phases[0]) == list(mb.phases[0]):
                    got.append(('mobility', ma.mobility[0], np.array(mb.mobility[0])[:, PF], rtol))
                    got.append(('mob_mu', ma.chemical_potentials[0], np.array(mb.chemical_potentials[0])[PF], rtol))
                else:
                    got.append(('mobility', str(ma.phases[0]), str(mb.phases[0]), 0))
                ca = A.curvatureFactor(xa, T, removeCache=True); cb = B.curvatureFactor(xb, T, removeCache=True)
                if ca is None or cb is None:
                    got.append(('curvature', ca is None, cb is None, 0)); res.count('D:curvature-single-phase')
                else:
                    got.append(('dc', ca.dc, cb.dc[P], rtol)); got.append(('mc', ca.mc, cb.mc, rtol)); got.append(('beta', ca.beta, cb.beta, rtol))
                    got.append(('gba', ca.gba, cb.gba[P][:, P], rtol)); got.append(('ceq_a', ca.c_eq_alpha, cb.c_eq_alpha[P], rtol)); got.append(('ceq_b', ca.c_eq_beta, cb.c_eq_beta[P], rtol))
                    R = np.array([1e-9, 3e-9, 2e-8]); gE = np.array([800.0, 300.0, 40.0])
                    ga = A.getGrowthAndInterfacialComposition(xa, T, 5000.0, R, gE, removeCache=True); gb = B.getGrowthAndInterfacialComposition(xb, T, 5000.0, R, gE, removeCache=True)
                    if ga is not None and gb is not None:
                        got.append(('growth', ga.growth_rate, gb.growth_rate, rtol)); got.append(('growth-c_alpha', ga.c_alpha, gb.c_alpha[:, P], rtol))
                        got.append(('growth-c_beta', ga.c_beta, gb.c_beta[:, P], rtol))
                    res.count('D:curvature-two-phase')
                gex = r.choice([0.0, 500.0, 2000.0])
                ia = A.getInterfacialComposition(xa, T, gex); ib = B.getInterfacialComposition(xb, T, gex)
                got.append(('ic_a', ia[0], np.asarray(ib[0])[PF], rtol)); got.append(('ic_b', ia[1], np.asarray(ib[1])[PF], rtol))
                res.count('D:interfacial-two-phase' if np.all(np.asarray(ia[0]) >= 0) else 'D:interfacial-unstable')
            nontriv = False
            for key, a, b, tol in got:
                if tol == 0:
                    if a != b:
                        res.violate('elem-order:' + key, 'real backend: %s differs in kind between the two listings' % key, desc, a, b)
                    continue
                nontriv = True
                if rel(a, b) > tol:
                    res.violate('elem-order:' + key, 'real backend (Ni-Cr-Al): %s with elements NI,AL,CR is not the permuted result of NI,CR,AL' % key, desc,
                                np.asarray(a).tolist(), np.asarray(b).tolist())
            res.case(('real-thermo', s), nontriv)
            res.count('D:real-thermo-points')
        guard(res, 'real-thermo', dict(part='real-thermo', seed=s), _body)


def part_diffusion(ctx, res, steps, seed=None):
    vlib.use_repo()
    from kawin.tests.datasets import NICRAL_TDB
    from kawin.thermo import GeneralThermodynamics
    from kawin.diffusion import SinglePhaseModel
    from kawin.diffusion.DiffusionParameters import CompositionProfile
    r = random.Random(ctx.rng.getrandbits(48) if seed is None else seed)
    cr = (r.uniform(0.05, 0.1), r.uniform(0.25, 0.36)); al = (r.uniform(0.04, 0.06), r.uniform(0.06, 0.09))
    outs = []
    with warnings.catch_warnings():
        warnings.simplefilter('ignore')
        for order in (['CR', 'AL'], ['AL', 'CR']):
            key = 'gen-' + '-'.join(order)
            if key not in _TH:
                _TH[key] = GeneralThermodynamics(NICRAL_TDB, ['NI'] + order, ['FCC_A1', 'BCC_A2'])
            cp = CompositionProfile()
            cp.addLinearCompositionStep('CR', *cr); cp.addStepCompositionStep('AL', al[0], al[1], 0.0)
            m = SinglePhaseModel([-1e-3, 1e-3], 20, ['NI'] + order, ['FCC_A1'], compositionProfile=cp)
            m.setThermodynamics(_TH[key]); m.setTemperature(1200 + 273.15)
            m.setup()
            t, x = m.getCurrentX(); dxdt = m.getdXdt(t, x); dt = m.getDt(dxdt)
            m.solve(dt * steps, verbose=False)
            t, x = m.getCurrentX()
            outs.append((float(dt), float(t), np.array(x[0]), np.array(dxdt[0])))
    desc = dict(part='diffusion', CR=cr, AL=al, steps=steps)
    (dt1, t1, x1, d1), (dt2, t2, x2, d2) = outs
    res.case(('diffusion', cr, al), True); res.count('D:diffusion-pair-runs')
    if not close(dt1, dt2, 1e-9) or not close(t1, t2, 1e-9):
        res.violate('elem-order:diffusion-time', 'ternary diffusion run: time step / end time depend on the listing order of the elements', desc, [dt2, t2], [dt1, t1])
    if rel(x1, x2[::-1]) > 1e-8 or np.max(np.abs(d1 - d2[::-1])) > 1e-8 * np.max(np.abs(d1)):
        res.violate('elem-order:diffusion-profile', 'ternary diffusion run: profiles of the re-listed elements are not the re-listed profiles', desc,
                    float(rel(x1, x2[::-1])), 1e-8)


def part_homogenization_real(ctx, res, system, N=6, steps=0, seed=None):
    """paired REAL homogenization-path evaluations with a listing whose sorting permutation is a 3-cycle
    (FE,NI,CR / NI,AL,CR) against an involutive one (FE,CR,NI / NI,CR,AL): by element name everything agrees"""
    vlib.use_repo()
    from kawin.tests import datasets
    from kawin.thermo import GeneralThermodynamics
    from kawin.diffusion import HomogenizationModel
    from kawin.diffusion.DiffusionParameters import CompositionProfile, computeMobility
    from kawin.diffusion.HomogenizationParameters import HomogenizationParameters, computeHomogenizationFunction
    r = random.Random(ctx.rng.getrandbits(48) if seed is None else seed)
    if system == 'FECRNI':
        db, ref, sols, T = datasets.FECRNI_DB, 'FE', (['NI', 'CR'], ['CR', 'NI']), 1100 + 273.15
        ends = {'CR': (r.uniform(0.22, 0.28), r.uniform(0.38, 0.44)), 'NI': (r.uniform(0.05, 0.08), r.uniform(0.24, 0.3))}
    else:
        db, ref, sols, T = datasets.NICRAL_TDB, 'NI', (['AL', 'CR'], ['CR', 'AL']), 1200 + 273.15
        ends = {'CR': (r.uniform(0.05, 0.1), r.uniform(0.25, 0.36)), 'AL': (r.uniform(0.04, 0.06), r.uniform(0.06, 0.09))}
    hf = r.choice(HFUNCS); eps = r.choice([0.01, 0.05])
    outs = []
    with warnings.catch_warnings():
        warnings.simplefilter('ignore')
        for sol in sols:
            key = 'gen-%s-%s' % (system, '-'.join(sol))
            if key not in _TH:
                _TH[key] = GeneralThermodynamics(db, [ref] + sol, ['FCC_A1', 'BCC_A2'])
            th = _TH[key]; th.clearCache()
            cp = CompositionProfile()
            for e in sol:
                cp.addLinearCompositionStep(e, *ends[e])
            hp = HomogenizationParameters(getattr(HomogenizationParameters, hf), eps=eps)
            m = HomogenizationModel([-5e-4, 5e-4], N, [ref] + sol, ['FCC_A1', 'BCC_A2'], compositionProfile=cp, homogenizationParameters=hp)
            m.setTemperature(T); m.setThermodynamics(th); m.constraints.maxCompositionChange = 0.002
            m.setup()
            xs = m.x.T.copy()
            amob, mu = computeHomogenizationFunction(th, xs, T, hp)
            md = computeMobility(th, xs, T)
            fl, dt = m.getFluxes()
            o = dict(h_mob={e: np.array(amob)[:, i] for i, e in enumerate([ref] + sol)}, h_mu={e: np.array(mu)[:, i] for i, e in enumerate([ref] + sol)},
                     m_mu={e: np.array(md.chemical_potentials)[:, i] for i, e in enumerate([ref] + sol)},
                     flux={e: np.array(fl)[i] for i, e in enumerate(sol)}, dt=float(dt))
            if steps:
                m.solve(dt * steps, verbose=False)
                o['t'] = float(m.t); o['prof'] = {e: np.array(m.getX(e)) for e in [ref] + sol}
            outs.append(o)
    desc = dict(part='homogenization-real', system=system, listings=[[ref] + s_ for s_ in sols], ends=ends, hfunc=hf, eps=eps)
    a, b = outs
    res.case(('homogenization-real', system, hf, tuple(sorted(ends.items()))), True); res.count('D:homogenization-real-' + system)
    if not close(a['dt'], b['dt'], 1e-6):
        res.violate('elem-order:homogenization:dt', 'real backend: time step of the homogenization model depends on the listing of the elements', desc, b['dt'], a['dt'])
    for q in ('h_mob', 'h_mu', 'm_mu', 'flux') + (('prof',) if steps else ()):
        sc = max(float(np.max(np.abs(v_))) for v_ in a[q].values()) if q == 'flux' else 0.0
        for e in a[q]:
            if np.max(np.abs(a[q][e] - b[q][e]) - 1e-6 * np.maximum(np.maximum(np.abs(a[q][e]), np.abs(b[q][e])), sc)) > 0:
                res.violate('elem-order:homogenization:' + q, 'real backend: %s of element %s (by name) depends on the listing of the elements' % (q, e), desc,
                            b[q][e].tolist(), a[q][e].tolist()); break
    for e in a['h_mu']:
        if rel(a['h_mu'][e], a['m_mu'][e]) > 1e-9:
            res.violate('elem-order:homogenization:vs-computeMobility', 'real backend: computeHomogenizationFunction and computeMobility return different chemical potentials for %s' % e, desc,
                        a['h_mu'][e].tolist(), a['m_mu'][e].tolist()); break
    if steps and not close(a['t'], b['t'], 1e-6):
        res.violate('elem-order:homogenization:time', 'real backend: homogenization runs end at different times', desc, b['t'], a['t'])


HIST = ['nucRate', 'volFrac', 'Rcrit', 'Ravg', 'precipitateDensity', 'drivingForce', 'Gcrit', 'impingement']


def compare_runs(res, desc, a, b, perm, keyprefix, rt_time=1e-6, rt_hist=2e-3, elem_perm=None):
    k = min(a.pData.n, b.pData.n)
    if a.pData.n != b.pData.n:
        res.violate(keyprefix + ':steps', 'paired runs took a different number of steps', desc, b.pData.n, a.pData.n); return
    ta, tb = a.pData.time[:k + 1], b.pData.time[:k + 1]
    if rel(ta[1:], tb[1:]) > rt_time:
        i = int(np.argmax(np.abs(ta - tb) / np.maximum(ta, 1e-300)))
        res.violate(keyprefix + ':time-grid', 'paired runs have different time grids (first listing vs re-listing)', dict(desc, step=i), float(tb[i]), float(ta[i])); return
    for nm in HIST:
        A = getattr(a.pData, nm)[:k + 1]; B = getattr(b.pData, nm)[:k + 1][:, perm]
        scale = np.max(np.abs(A), axis=0, keepdims=True) * 1e-6
        bad = np.abs(A - B) > rt_hist * np.maximum(np.maximum(np.abs(A), np.abs(B)), scale)
        if bad.any():
            i, j = np.argwhere(bad)[0]
            res.violate(keyprefix + ':history-' + nm, 'paired runs: per-phase history %s is not the permuted one' % nm, dict(desc, step=int(i), phase=int(j)), float(B[i, j]), float(A[i, j]))
    ca = a.pData.composition[:k + 1]; cb = b.pData.composition[:k + 1]
    if elem_perm is not None:
        cb = cb[:, elem_perm]
    if rel(ca, cb) > rt_hist:
        res.violate(keyprefix + ':history-composition', 'paired runs: matrix composition history differs', desc, float(rel(ca, cb)), rt_hist)


def noise_limited_step(m, i):
    """was the step that produced time[i] of run m set by computeDTfromRcrit dividing by a relative change of the
    critical radius that is at solver-noise level (< 1e-6)?  Returns (bool, detail)"""
    pd = m.pData
    if i < 2:
        return False, None
    n = i - 1
    dtPrev = pd.time[n] - pd.time[n - 1]
    dt = pd.time[i] - pd.time[n]
    best = None
    for p in range(pd.Rcrit.shape[1]):
        r0, r1, dg = pd.Rcrit[n - 1, p], pd.Rcrit[n, p], pd.drivingForce[n, p]
        if r0 > 0 and r1 - r0 != 0 and dg > 0:
            relchange = abs((r1 - r0) / r0)
            lim = m.constraints.maxRcritChange * dtPrev / relchange
            if best is None or lim < best[0]:
                best = (lim, relchange, p)
    if best is not None and close(best[0], dt, 1e-9) and best[1] < 1e-6:
        return True, dict(step=i, dt=float(dt), phase=int(best[2]), rel_change_of_Rcrit=float(best[1]))
    return False, None


def part_kwn_multiphase(ctx, res, steps, three=False, cached=False, loaded=False, needle=False, seed=None):
    """paired runs with the phases listed in every order.  cached=False: thermodynamics without warm-start caches
    (setThermodynamics(removeCache=True)): the backend is a deterministic function of (x, T, phase), the runs must
    agree to rounding.  cached=True: kawin's default; the equilibrium solver is warm-started from the previous call,
    so its 1e-9 noise depends on the call history (and hence on the phase order)."""
    import kwnruns
    vlib.use_repo()
    from kawin.tests.datasets import ALMGSI_DB
    from kawin.thermo import MulticomponentThermodynamics
    from kawin.precipitation import PrecipitateModel, VolumeParameter
    allph = ['MGSI_B_P', 'MG5SI6_B_DP', 'B_PRIME_L']
    gamma = {'MGSI_B_P': 0.18, 'MG5SI6_B_DP': 0.084, 'B_PRIME_L': 0.18}
    r = random.Random(ctx.rng.getrandbits(48) if seed is None else seed)
    phs = allph if three else r.choice([allph[:2], allph[:2], [allph[0], allph[2]], allph[1:]])
    if needle:      # a needle-shaped phase whose aspect ratio is computed from the elastic energy, next to a spherical one
        phs = ['MG5SI6_B_DP', 'MGSI_B_P']
    T = r.uniform(230, 270) + 273.15
    x0 = [r.uniform(0.006, 0.009), r.uniform(0.005, 0.007)]
    sites = {p: r.choice(['dislocations', 'bulk']) for p in phs}
    key = 'almgsi'
    if key not in _TH:
        _TH[key] = MulticomponentThermodynamics(ALMGSI_DB, ['AL', 'MG', 'SI'], ['FCC_A1'] + allph, drivingForceMethod='tangent')

    def build(order):
        m = PrecipitateModel(phases=order, elements=['MG', 'SI'])
        m.setPBMParameters(cMin=1e-10, cMax=1e-8, bins=75, minBins=50, maxBins=100)
        m.setInitialComposition(x0)
        m.setVolumeAlpha(1e-5, VolumeParameter.MOLAR_VOLUME, 4)
        m.setTemperature(T)
        m.setNucleationDensity(grainSize=1, dislocationDensity=1e15)
        for p in order:
            m.setInterfacialEnergy(gamma[p], phase=p)
            m.setVolumeBeta(1e-5, VolumeParameter.MOLAR_VOLUME, 4, phase=p)
            m.setNucleationSite(sites[p], phase=p)
        if needle:
            m.setPBMParameters(cMin=1e-10, cMax=3e-9, bins=20, minBins=14, maxBins=28)
            pp = m.precipitateParameters[m.phaseIndex('MG5SI6_B_DP')]
            pp.strainEnergy.setElasticConstants(108e9, 61.3e9, 28.5e9); pp.strainEnergy.setEigenstrain([0.035, 0.035, 0.002])
            pp.shapeFactor.setPrecipitateShape('needle'); pp.calculateAspectRatio = True
        m.setThermodynamics(_TH[key], removeCache=not cached)
        m.constraints.dtScale = 0.1
        return m
    # loaded=True: every phase starts from a log-normal size distribution (growth / coarsening regime: small classes
    # dissolve, the dissolution index, re-meshing and the PSD step rule are active from the first step)
    psd0 = {}
    for p in allph:      # median radius, width, number density such that the loaded volume fraction is 3e-4 .. 1.2e-3 per phase
        r0 = r.uniform(1.2e-9, 3e-9)
        psd0[p] = (r0, r.uniform(0.25, 0.35), r.uniform(3e-4, 1.2e-3) / (4.19 * r0 ** 3))

    def lognormal(r0, sg, Ntot):
        def f(R):
            w = 1 / (R * sg * np.sqrt(2 * np.pi)) * np.exp(-np.log(R / r0) ** 2 / (2 * sg ** 2))
            return Ntot * w / np.sum(w)
        return f
    orders = list(itertools.permutations(range(len(phs))))
    if three and loaded:
        orders = [orders[0], (2, 0, 1), (1, 0, 2)]
    runs = []
    with warnings.catch_warnings():
        warnings.simplefilter('ignore')
        for o in orders:
            _TH[key].clearCache()
            m = build([phs[i] for i in o])
            if loaded:
                m.setPBMParameters(cMin=1e-10, cMax=6e-9, bins=75, minBins=50, maxBins=100)
                m.setup()
                for p in phs:
                    m.PBM[m.phaseIndex(p)].LoadDistributionFunction(lognormal(*psd0[p]))
            kwnruns.run(m, 3600 * 50, max_steps=steps)
            runs.append((o, m))
    mode = ('cached' if cached else 'fresh') + ('-loaded' if loaded else '') + ('-needle' if needle else '')
    desc = dict(psd0=psd0 if loaded else None, part='kwn-multiphase', mode=mode, phases=phs, T=T, x0=x0, sites=sites, steps=steps)
    base = runs[0][1]
    active = int(np.sum(np.max(base.pData.nucRate, axis=0) > 0))
    res.case(('kwn-multiphase', mode, tuple(phs), round(T, 3)), active >= 1 or loaded)
    res.count('D:kwn-multiphase-%s-runs' % mode, len(runs)); res.count('D:kwn-multiphase-%s-phases-nucleating=%d' % (mode, active))
    res.traces += len(runs)
    if any(np.any(m.pData.composition[:m.pData.n + 1] <= m.constraints.minComposition) for _, m in runs):
        # the matrix ran out of a solute: the backend is evaluated ON the composition boundary, where pycalphad's answer
        # flips sign from call to call (observed: driving force -5e9 / +3e9 at x_MG = 0) - outside the statement
        res.count('D:kwn-multiphase-%s-matrix-depleted-skipped' % mode)
        return
    for o, m in runs[1:]:
        # phase j of the first listing sits at position o.index(j) of the re-listing
        perm = [list(o).index(j) for j in range(len(phs))]
        d2 = dict(desc, listing=[phs[i] for i in o])
        if not cached:
            compare_runs(res, d2, base, m, perm, 'phase-order:run', rt_time=1e-6, rt_hist=1e-4)
            if needle:
                for j in range(len(phs)):
                    fa = base.precipitateParameters[j].shapeFactor.aspectRatio(RGRID) * np.ones(len(RGRID))
                    fb = m.precipitateParameters[perm[j]].shapeFactor.aspectRatio(RGRID) * np.ones(len(RGRID))
                    if rel(fa, fb) > 1e-6 or rel(base.pData.ARavg[:base.pData.n + 1, j], m.pData.ARavg[:m.pData.n + 1, perm[j]]) > 1e-4:
                        res.violate('phase-order:run:aspect-ratio', 'paired runs: aspect ratio function / ARavg history of phase %s differ between listings' % phs[j], d2, fb.tolist(), fa.tolist())
            for j in range(len(phs)):
                A, B = base.PBM[j], m.PBM[perm[j]]
                if A.PSD.shape != B.PSD.shape or rel(A.PSDbounds, B.PSDbounds) > 1e-9 or np.max(np.abs(A.PSD - B.PSD)) > 1e-4 * max(np.max(np.abs(A.PSD)), 1.0) \
                        or int(base.dissolutionIndex[j]) != int(m.dissolutionIndex[perm[j]]):
                    res.violate('phase-order:run:final-PSD', 'paired runs: final size distribution / size classes / dissolution index of phase %s differ between listings' % phs[j], d2,
                                [int(B.bins), int(m.dissolutionIndex[perm[j]])], [int(A.bins), int(base.dissolutionIndex[j])])
            continue
        k = min(base.pData.n, m.pData.n)
        ta, tb = base.pData.time[:k + 1], m.pData.time[:k + 1]
        bad = np.nonzero(np.abs(ta - tb) > 1e-6 * np.maximum(ta, tb))[0]
        if len(bad):
            i = int(bad[0])
            n1, det1 = noise_limited_step(base, i); n2, det2 = noise_limited_step(m, i)
            if n1 or n2:
                res.count('D:kwn-multiphase-cached-noise-limited-step')
                res.violate('phase-order:run-cached:noise-limited-step',
                            'default (cached) thermodynamics: the two listings take different steps because computeDTfromRcrit divides by a change of Rcrit at solver-noise level',
                            dict(d2, detail=det1 or det2), float(tb[i]), float(ta[i]))
                continue
        compare_runs(res, d2, base, m, perm, 'phase-order:run-cached', rt_time=1e-6, rt_hist=2e-3)


def part_kwn_ternary(ctx, res, steps, seed=None, named_condition=False):
    import kwnruns
    vlib.use_repo()
    from kawin.precipitation import PrecipitateModel, VolumeParameter
    A, B = therm_pair()
    r = random.Random(ctx.rng.getrandbits(48) if seed is None else seed)
    x_al, x_cr = r.uniform(0.09, 0.105), r.uniform(0.075, 0.09)
    T = r.uniform(1053, 1093)
    runs = []; conds = []
    # every second pair carries a condition on the solute that is NOT first in one of the listings (Al depletes as gamma' forms)
    stop_on = (('Al', x_al * r.uniform(0.985, 0.995)) if r.random() < 0.5 else ('Cr', x_cr * r.uniform(0.9, 0.97))) if named_condition else None
    with warnings.catch_warnings():
        warnings.simplefilter('ignore')
        for th, els, x0 in ((A, ['Al', 'Cr'], [x_al, x_cr]), (B, ['Cr', 'Al'], [x_cr, x_al])):
            th.setDrivingForceMethod('tangent'); th.clearCache()
            m = PrecipitateModel(elements=els, phases=['FCC_L12'])
            m.setPBMParameters(cMin=1e-10, cMax=1e-8, bins=75, minBins=50, maxBins=100)
            m.setInitialComposition(x0); m.setInterfacialEnergy(0.023); m.setTemperature(T)
            a = 0.352e-9
            m.setVolumeAlpha(a ** 3, VolumeParameter.ATOMIC_VOLUME, 4); m.setVolumeBeta(a ** 3, VolumeParameter.ATOMIC_VOLUME, 4)
            m.setNucleationSite('bulk'); m.setNucleationDensity(bulkN0=1e30)
            m.setThermodynamics(th)
            m.constraints.dtScale = 0.1
            if stop_on is not None:
                # a stopping condition that NAMES its solute: it must watch that solute wherever it stands in the list
                from kawin.precipitation.StoppingConditions import CompositionCondition, Inequality
                sc = CompositionCondition(Inequality.LESSER_THAN, stop_on[1], element=stop_on[0])
                m.addStoppingCondition(sc, 'or')
                conds.append(sc)
            kwnruns.run(m, 3600 * 10, max_steps=steps)
            runs.append(m)
    desc = dict(part='kwn-ternary', x_AL=x_al, x_CR=x_cr, T=T, steps=steps, stop_on=stop_on)
    if stop_on is not None:
        st = [(bool(c.isSatisfied()), float(c.satisfiedTime())) for c in conds]
        res.count('D:kwn-ternary-named-condition-' + ('met' if st[0][0] else 'not-met'))
        if st[0][0] != st[1][0] or (st[0][0] and rel(st[0][1], st[1][1]) > 1e-6) or runs[0].pData.n != runs[1].pData.n:
            res.violate('elem-order:run:named-stopping-condition', 'paired ternary runs with a composition condition naming one solute stop differently when the solutes are listed in the other order',
                        desc, [st[0], int(runs[0].pData.n)], [st[1], int(runs[1].pData.n)])
    a, b = runs
    res.case(('kwn-ternary', round(x_al, 5), round(T, 2)), bool(a.pData.nucRate[a.pData.n, 0] > 0))
    res.count('D:kwn-ternary-runs', 2); res.traces += 2
    compare_runs(res, desc, a, b, [0], 'elem-order:run', elem_perm=[1, 0])
    k = a.pData.n
    for nm in ('xEqAlpha', 'xEqBeta'):
        if rel(getattr(a.pData, nm)[:k + 1], getattr(b.pData, nm)[:k + 1][:, :, [1, 0]]) > 2e-3:
            res.violate('elem-order:run:history-' + nm, 'paired ternary runs: %s is not the re-listed one' % nm, desc)


def _dparts():
    return {'kwn-multiphase': part_kwn_multiphase, 'kwn-ternary': part_kwn_ternary, 'diffusion': part_diffusion,
            'homogenization-real': part_homogenization_real}


def run_part(ctx, res, name, seed=None, **kw):
    """one paired real evaluation / run, generated from its own seed, inside its own guard"""
    s = ctx.rng.getrandbits(48) if seed is None else seed
    case = dict(part=name, seed=s, args=dict(kw))
    return guard(res, name, case, lambda: _dparts()[name](ctx, res, seed=s, **kw))


# =========================================================================== entry points
def part_config_elements(ctx, res, n):
    """E: everything a precipitation model derives from the solute LIST before it runs (no thermodynamics involved): initial
    composition vector, default nucleation-site densities (bulk N0 from the composition, dislocation / boundary / edge / corner
    densities), molar-volume derived quantities.  Re-listing the solutes must permute the composition and change nothing else."""
    vlib.use_repo()
    from kawin.precipitation import PrecipitateModel, VolumeParameter
    names = ['AL', 'CR', 'CO', 'CU', 'MG', 'SI', 'TI', 'ZR']
    for _ in range(int(n)):
        k = ctx.rng.choice([2, 2, 3, 4])
        els = ctx.rng.sample(names, k)
        x = [ctx.rng.uniform(0.002, 0.15) for _ in els]
        perm = list(range(k)); ctx.rng.shuffle(perm)
        if perm == list(range(k)):
            perm = perm[1:] + perm[:1]
        site = ctx.rng.choice(['bulk', 'dislocations', 'grain boundaries', 'grain edges', 'grain corners'])
        setN0 = ctx.rng.random() < 0.25
        order = ctx.rng.choice(['composition-first', 'volume-first'])
        case = dict(part='config-elements', elements=els, x=x, perm=perm, site=site, user_bulkN0=setN0, order=order)

        def build(idx):
            m = PrecipitateModel(phases=['P'], elements=[els[i] for i in idx])
            def comp(): m.setInitialComposition([x[i] for i in idx])
            def vol(): m.setVolumeAlpha(1e-5, VolumeParameter.MOLAR_VOLUME, 4)
            for f in ((comp, vol) if order == 'composition-first' else (vol, comp)):
                f()
            m.setVolumeBeta(1e-5, VolumeParameter.MOLAR_VOLUME, 4)
            m.setNucleationDensity(grainSize=50, dislocationDensity=1e14, **({'bulkN0': 1e28} if setN0 else {}))
            m.setNucleationSite(site)
            m.setInterfacialEnergy(0.1)
            return m
        ok, ms = vlib.guarded(res, 'config-elements', case, lambda: (build(list(range(k))), build(perm)))
        if not ok:
            continue
        a, b = ms
        res.case(('config-elements', tuple(els), tuple(perm), site, setN0, order), not setN0)
        res.count('E:config-elements:' + site + (':user-N0' if setN0 else ':default-N0'))
        xa = np.atleast_1d(a.matrixParameters.initComposition); xb = np.atleast_1d(b.matrixParameters.initComposition)
        if not vlib.all_close([xa[i] for i in perm], xb, 1e-15):
            res.violate('elem-order:config:initial-composition', 're-listing the solutes does not permute the initial composition', case, xb.tolist(), [float(xa[i]) for i in perm])
        na, nb = a.matrixParameters.nucleationSites, b.matrixParameters.nucleationSites
        for attr in ('bulkN0', 'dislocationN0', 'GBareaN0', 'GBedgeN0', 'GBcornerN0'):
            va, vb = getattr(na, attr, None), getattr(nb, attr, None)
            if va is None and vb is None:
                continue
            if va is None or vb is None or not vlib.close(float(va), float(vb), 1e-13):
                res.violate('elem-order:config:nucleation-sites:' + attr, 'the default nucleation-site density ' + attr + ' depends on the ORDER in which the solutes are listed',
                            case, vb, va)




def corr(ctx, oracle_only=False, scale=1):
    res = Result()
    res.rule = ('A: random distinct keys (element names from a pool of 25 symbols incl. common prefixes C/CO/CR/CU, ints, doubles), 1-12 keys; '
                'B: 3-6 random element names, random compositions, a random non-identity re-listing of the solutes, real wrapper code on a hash-seeded stub backend; '
                'non-trivial = the re-listing is not an involution (sortIndices != unsortIndices); '
                'B2: the same element lists with profiles / boundary conditions given by element name, 4-7 nodes, 5 homogenization functions; non-trivial = sorting permutation of the full element list is not an involution; C3: 2-3 phases, 4 shapes x constant / R-dependent / computed aspect ratio x 5 site types, first / reversed / rotated listings + each phase alone; non-trivial = a phase with computed aspect ratio in a multi-phase model; C2: 2-4 phases with log-normal / tail-full / small / empty distributions, reversed + rotated + random listings; non-trivial = some phase gets a dissolution index > 0; C: 1-4 phases x 5 site types x parent phases x PSD/growth/nucleation-rate/Rcrit regimes x n=0/n>0 x isothermal or not, all (<= 6) listings; '
                'non-trivial = >= 2 phases and at least one rule below dtMax; D: paired real evaluations / runs; distinct = case seed')
    use_model = bool(ctx.driver_ok) and not oracle_only
    t0 = time.time()
    part_argsort(ctx, res, ctx.n(300, 6000) * scale, use_model)
    part_wrappers(ctx, res, ctx.n(150, 3000) * scale, use_model)
    part_diffusion_stub(ctx, res, ctx.n(80, 1500) * scale, use_model)
    part_config_elements(ctx, res, ctx.n(60, 1500) * scale)
    t1 = time.time()
    part_steps(ctx, res, ctx.n(800, 25000) * scale, use_model)
    part_update(ctx, res, ctx.n(300, 8000) * scale)
    part_setup(ctx, res, ctx.n(35, 1200) * scale, real_search=ctx.n(1, 12))
    t2 = time.time()
    part_real_thermo(ctx, res, ctx.n(6, 150))
    t3 = time.time()
    run_part(ctx, res, 'kwn-multiphase', steps=ctx.n(40, 200))
    run_part(ctx, res, 'kwn-multiphase', steps=ctx.n(25, 120), loaded=True)
    run_part(ctx, res, 'kwn-multiphase', steps=ctx.n(60, 400), cached=True)
    if ctx.thorough:
        for _ in range(3):
            run_part(ctx, res, 'kwn-multiphase', steps=150)
            run_part(ctx, res, 'kwn-multiphase', steps=400, cached=True)
        run_part(ctx, res, 'kwn-multiphase', steps=80, three=True)
        run_part(ctx, res, 'kwn-multiphase', steps=60, three=True, loaded=True)
        run_part(ctx, res, 'kwn-multiphase', steps=100, loaded=True)
        run_part(ctx, res, 'kwn-multiphase', steps=40, needle=True)
        run_part(ctx, res, 'kwn-multiphase', steps=250, three=True, cached=True)
    t4 = time.time()
    run_part(ctx, res, 'kwn-ternary', steps=ctx.n(25, 200))
    run_part(ctx, res, 'kwn-ternary', steps=ctx.n(40, 200), named_condition=True)
    run_part(ctx, res, 'diffusion', steps=ctx.n(4, 40))
    run_part(ctx, res, 'homogenization-real', system='FECRNI', steps=ctx.n(0, 3))
    run_part(ctx, res, 'homogenization-real', system='NICRAL', steps=ctx.n(0, 3))
    t5 = time.time()
    res.monitored = list(MONITORED)
    res.extra['part_wall_s'] = dict(argsort_wrappers=round(t1 - t0, 1), steps=round(t2 - t1, 1), real_thermo=round(t3 - t2, 1),
                                    kwn_multiphase=round(t4 - t3, 1), kwn_ternary_diffusion=round(t5 - t4, 1))
    vlib.finish_guard(res)
    return res


def search(ctx, broken):
    return corr(ctx, oracle_only=True, scale=3)


def replay(ctx, entry):
    """re-evaluate the oracle on the recorded case (cases are regenerated from their seed)"""
    c = entry['violation']['case']
    if 'part' not in c and isinstance(c.get('case'), dict):
        c = c['case']
    part = c.get('part')
    res = Result()

    class OneSeed:
        def __init__(s, v): s.v = v
        def getrandbits(s, k): return s.v
    ctx.driver_ok = False
    loops = {'argsort': part_argsort, 'wrappers': part_wrappers, 'steps': part_steps, 'diffusion-stub': part_diffusion_stub,
             'update': part_update, 'setup': part_setup, 'real-thermo': part_real_thermo}
    try:
        if part in loops and 'seed' in c:
            saved = ctx.rng; ctx.rng = OneSeed(int(c['seed']))
            try:
                if part == 'real-thermo':
                    part_real_thermo(ctx, res, 1)
                else:
                    loops[part](ctx, res, 1, False)
            finally:
                ctx.rng = saved
        elif part in _dparts() and 'seed' in c:
            run_part(ctx, res, part, seed=int(c['seed']), **(c.get('args') or {}))
        elif part in _dparts():
            # recorded by a comparison inside the part: rerun that part on a fresh sample
            run_part(ctx, res, part, **({'system': c['system']} if 'system' in c else {'steps': c.get('steps', 40)}))
        else:
            res = corr(ctx, oracle_only=True)
        vlib.finish_guard(res)
    except Exception as e:                      # harness problem while replaying: report, do not claim the property holds
        print('   replay raised', type(e).__name__, e)
        return False
    for v in res.violations:
        print('  ', v['key'], v['what'], v['observed'], v['required'])
    return not res.violations
