"""C14 — classical nucleation theory for every site type.

regenerate(): traces the real kawin formulas (Clemm–Fisher factors, NucleationBarrierParameters.Rcrit/Gcrit,
the scalar formulas of NucleationRate.py) with the concolic tracer and probes the cache-invalidation table of
NucleationBarrierParameters -> lean/KawinV/Gen/C14Nuc.lean.
corr(): translator validation (generated defs on Float vs the Python functions called normally, scalar and
array calls), guard wrappers, setter op sequences vs the state-machine model, _calcNucleationSites vs model,
a short real Al-Zr run with a temperature jump (trace refinement of the per-phase nucleation step), and the
direct oracle of every C14 clause on the real functions.
"""
import math, os, sys, types, warnings
import numpy as np
import vlib, kwnfull
from vlib import Result, enc_list, f2b, Toks, close

PROP = 'C14'
META = {
    'level_text': 'Lean 4 theorems about definitions REGENERATED from the kawin sources on every run (concolic trace of the real Clemm-Fisher factor methods, NucleationBarrierParameters.Rcrit/Gcrit and the scalar formulas of NucleationRate.py) and about a hand model of the guards, the cached-factor state machine, incubationTimeNonIsothermal, _calcNucleationSites and the per-phase step of _calcNucleationRate: area - 2k*gbRemoval = 3*volume for bulk/boundary/edge/corner as ring identities for every k and every interpretation of pi, sqrt, arcsin, arccos; hence Rcrit = 2*gamma/dG (the regenerated bulk formula) and Gcrit = volume/(4pi/3) * spherical barrier when gamma_gb = 2k*gamma; boundary factors: closed form, sign and strict decrease on [0,1], sphere values at k=0; edge/corner sphere values at k=0 over the reals (Mathlib arcsin/arccos); dG > 0 => Rcrit >= Rmin, Gcrit >= 0 (bulk always; boundary kinds while dG*Rmin <= 3*gamma), barrier non-increasing in dG, dG <= 0 => Rcrit = Gcrit = 0 and rate 0 - also on the copied slice of a run (after the repair of D-C14-stale); Zeldovich/beta/tau strictly positive with non-zero denominators and non-negative square-root arguments under the code guards; non-isothermal incubation time >= 0; incubation factor in (0,1], equal to exp(-tau/t), monotone in t; finite-time rate = steady rate * incubation factor; Z*beta independent of Rcrit and steady-state rate non-decreasing in dG over ALL real dG; sites >= 0 and antitone in the occupying populations; cached factors = fresh computation after ANY sequence of gamma/gbEnergy/description assignments and reads (induction over the op list; the invalidation table is probed on the real class and regenerated), and a getter that does not raise returns the regenerated formula, never the -1 sentinel. Generated definitions are validated numerically against the Python functions (scalar and array calls) on every run; the hand models are tied by differential correspondence (op sequences, random histories and populations, trace refinement of a real Al-Zr run with a temperature jump). On the composed KWN step (KawinV.KWNFull) depEval_nuc proves for every backend that a recorded row with negative driving force carries no nucleation rate / radius / barrier / impingement and that a non-zero critical radius is at least Rmin; the nucleation stage of real runs (regenerated formulas + site competition) is replayed step by step.',
    'level_note': 'Monitored only (oracle, fine grid up to each limit with a tolerance scaled by the conditioning of the formulas): sign and monotonicity of the edge and corner factors on (0,k_max). Trusted: Lean kernel + Mathlib (propext, Classical.choice, Quot.sound); the tracer tools/py2lean/sym.py - its output is re-validated numerically at a few hundred random points per definition per run and its guards (path conditions) are asserted at generation; exact real/field arithmetic instead of IEEE doubles (NaN/inf outside the statement; next to the limits the double evaluation of the factors is ill-conditioned); thermodynamic inputs (driving force, diffusivity, impingement factor, interfacial compositions) are inputs of the model. Known finding gcrit-negative-gb-rmin: for boundary/edge/corner sites the code barrier is <= 0 once dG*Rmin >= 3*gamma; the Gcrit >= 0 and rate-monotonicity theorems carry that hypothesis visibly (barrier_gb_Gcrit_nonneg_partial, steadyChain_mono_gb_partial, witness barrier_gb_Gcrit_negative_witness). Observation outside the statement: dislocation sites take the BulkDescription branch of _calcNucleationSites (DislocationDescription subclasses BulkDescription), so the dislocation density never enters the site count (calcSites_dislocation_uses_bulk_branch).',
    'technique': 'Lean 4 proof over ordered fields / reals about source-regenerated definitions + translator validation + model/implementation differential correspondence + run-trace refinement',
    'design_ref': 'DESIGN.md section 6, C14',
}
LEAN_MODULES = ['KawinV.Props.C14', 'KawinV.Props.KWNFull']
MONITORED = [
    'edge factors: gbRemoval, areaFactor, volumeFactor >= 0 and volumeFactor strictly decreasing on (0, sqrt(3)/2) (fine grid up to the limit)',
    'corner factors: gbRemoval, areaFactor, volumeFactor >= 0 and volumeFactor strictly decreasing on (0, sqrt(2/3)) (fine grid up to the limit)',
]
ASSUMPTIONS = [
    'valid parameters: gamma > 0, T > 0, Vm > 0, lattice parameter > 0, theta > 0, diffusivities > 0, 0 < x_alpha < 1, x_beta != x_alpha, Rmin > 0, time > 0',
    'exact-field / real theorems vs IEEE doubles: generated definitions compared with rtol 1e-9 (cancellation-prone factors near k_max with the magnitude of the cancelling terms as scale)',
    'NaN / inf inputs are outside the statement',
    'doubles: the edge and corner formulas are ill-conditioned next to their limit (arccos of a 0/0-type quotient; rounding noise ~1e-16/(1-k/kmax) while the factors vanish), so within ~1e-3 of the limit the computed factors can be off by more than their size, even negative; sign/monotonicity/identity are checked there with a tolerance scaled by that noise, barrier/rate chains are sampled with k <= 0.999 k_max',
]
TRUSTED = [
    'tools/py2lean/sym.py concolic tracer (output validated numerically against the Python functions on every run)',
    'Mathlib Real.sqrt/exp/arcsin/arccos/pi as the interpretation of the transcendental atoms in the real-number theorems',
]

GEN_FILE = os.path.join(vlib.LEAN, 'KawinV', 'Gen', 'C14Nuc.lean')
SITES = ['bulk', 'disl', 'gb', 'edge', 'corner']
SITE_NAMES = {'bulk': 'bulk', 'disl': 'dislocations', 'gb': 'grain boundaries', 'edge': 'grain edges', 'corner': 'grain corners'}
CACHES = [('gbk', '_GBk', 'GBk'), ('area', '_areaFactor', 'areaFactor'), ('vol', '_volumeFactor', 'volumeFactor'),
          ('rem', '_gbRemoval', 'gbRemoval'), ('arem', '_areaRemoval', 'areaRemoval')]
FACTORS = ['_gbRemoval', '_areaFactor', '_volumeFactor', '_areaRemoval']


def _kawin():
    vlib.use_repo()
    with warnings.catch_warnings():
        warnings.simplefilter('ignore')
        from kawin.precipitation.parameters import Nucleation as N
        from kawin.precipitation import NucleationRate as R
    return N, R


# =====================================================================================================
# regeneration
# =====================================================================================================
def _sym():
    p = os.path.join(vlib.VERIF, 'tools', 'py2lean')
    if p not in sys.path:
        sys.path.insert(0, p)
    import sym
    return sym


def _vars_of(node, acc=None, seen=None):
    acc = set() if acc is None else acc
    seen = set() if seen is None else seen
    if node.id in seen:
        return acc
    seen.add(node.id)
    if node.op == 'var':
        acc.add(node.args[0])
    for a in node.args:
        if hasattr(a, 'op'):
            _vars_of(a, acc, seen)
    return acc


def regenerate(ctx):
    sym = _sym()
    from sym import Sym, Node, emit_def
    N, R = _kawin()
    NS = types.SimpleNamespace

    class NPProxy:
        """stands in for the module-level `np` of the traced modules: π stays an atom and np.zeros gives an
        object array, so `values[indices] = …` keeps the traced expressions"""
        def __init__(self):
            self.pi = Sym.atom('pi', math.pi)

        def __getattr__(self, n):
            return getattr(np, n)

        def zeros(self, shape, *a, **k):
            arr = np.empty(shape, dtype=object)
            arr[...] = Sym.const(0)
            return arr

    def V(name, v):
        return Sym.var(name, v)

    def arr(name, v):
        return np.array([Sym.var(name, v)], dtype=object)

    def item(x):
        x = np.asarray(x, dtype=object)
        assert x.size == 1
        return Sym.const(x.reshape(-1)[0])

    def cut(node, mapping):
        memo = {}

        def go(nd):
            if nd.id in mapping:
                return Node('var', (mapping[nd.id],))
            if nd.id in memo:
                return memo[nd.id]
            r = Node(nd.op, tuple(go(a) if isinstance(a, Node) else a for a in nd.args))
            memo[nd.id] = r
            return r
        return go(node)

    out = []

    def emit(name, params, s, doc, unused=()):
        used = _vars_of(s.node)
        missing = set(params) - used - set(unused)
        extra = used - set(params)
        if missing or extra:
            raise RuntimeError('trace of %s: parameters lost %s / unexpected %s' % (name, sorted(missing), sorted(extra)))
        out.append(emit_def(name, params, s, doc=doc)[0])

    def path():
        p = [(op, r) for (op, _, _, r) in sym.PATH]
        del sym.PATH[:]
        return p

    saved = (N.np, R.np, R.BOLTZMANN_CONSTANT, R.AVOGADROS_NUMBER)
    px = NPProxy()
    try:
        N.np = px
        R.np = px
        R.BOLTZMANN_CONSTANT = V('kB', 1.380649e-23)
        R.AVOGADROS_NUMBER = V('NA', 6.022e23)
        del sym.PATH[:]
        # ---------------------------------------------------------------- geometric factors
        out.append('/-! ### geometric factors (kawin/precipitation/parameters/Nucleation.py) -/\n\n')
        classes = [('bulk', N.BulkDescription), ('disl', N.DislocationDescription), ('gb', N.GrainBoundaryDescription),
                   ('edge', N.GrainEdgeDescription), ('corner', N.GrainCornerDescription)]
        for nm, cls in classes:
            d = cls()
            for meth in FACTORS:
                k = arr('k', 0.3)
                o = item(getattr(d, meth)(k))
                emit(nm + meth, ['k'], o, '%s.%s' % (cls.__name__, meth), unused=['k'] if nm in ('bulk', 'disl') else ())
        g = N.NucleationDescriptionBase().gbRatio(V('gbE', 0.3), V('gamma', 0.2))
        emit('gbRatio', ['gbE', 'gamma'], g, 'NucleationDescriptionBase.gbRatio')
        # ---------------------------------------------------------------- barrier of NucleationBarrierParameters
        out.append('/-! ### NucleationBarrierParameters.Rcrit / Gcrit (cached factors a = areaFactor, b = gbRemoval, c = volumeFactor) -/\n\n')
        nbp = N.NucleationBarrierParameters('grain boundaries', gamma=V('gamma', 0.2), gbEnergy=V('gbE', 0.3))
        nbp._areaFactor = V('a', 6.0); nbp._volumeFactor = V('c', 1.3); nbp._gbRemoval = V('b', 2.3)
        rc = nbp.Rcrit(V('dG', 1e8))
        gc = nbp.Gcrit(V('dG', 1e8), V('R', 3e-9))
        emit('nbp_Rcrit', ['a', 'b', 'c', 'gamma', 'gbE', 'dG'], rc, 'NucleationBarrierParameters.Rcrit')
        emit('nbp_Gcrit', ['a', 'b', 'c', 'gamma', 'gbE', 'dG', 'R'], gc, 'NucleationBarrierParameters.Gcrit')
        path()
        # ---------------------------------------------------------------- NucleationRate.nucleationBarrier
        out.append('/-! ### NucleationRate.py -/\n\n')

        def prec(kind, Rmin):
            p = NS()
            p.Rmin = Rmin
            p.gamma = V('gamma', 0.2)
            p.shapeFactor = NS(description=NS(thermoFactor=lambda ar: V('f', 1.2)))
            p.nucleation = nbp if kind == 'gb' else N.NucleationBarrierParameters('bulk', gamma=p.gamma)
            p.volume = NS(Vm=V('Vm', 1e-5))
            p.phase = 'X'
            return p
        got = {}
        for kind in ('bulk', 'gb'):
            for tag, Rmin in (('A', 3e-10), ('B', V('Rmin', 1.0))):
                Rc, Gc = R.nucleationBarrier(arr('dG', 1e8), prec(kind, Rmin))
                Rc, Gc = item(Rc), item(Gc)
                pc = path()
                want = [('gt', True), ('ge', tag == 'A')]
                if pc != want:
                    raise RuntimeError('nucleationBarrier %s/%s: guards changed: %s (expected dG > 0, amax of proposal and Rmin)' % (kind, tag, pc))
                got[kind, tag] = (Rc, Sym(cut(Gc.node, {Rc.node.id: 'R'}), Gc.val))
        if got['bulk', 'A'][1].node is not got['bulk', 'B'][1].node:
            raise RuntimeError('nucleationBarrier (bulk): Gcrit is not the same function of the clamped Rcrit on both paths')
        if got['gb', 'A'][0].node is not rc.node or got['gb', 'A'][1].node is not gc.node or got['gb', 'B'][1].node is not gc.node:
            raise RuntimeError('nucleationBarrier (grain boundary branch) no longer calls nucleation.Rcrit / nucleation.Gcrit(dG, clamped Rcrit)')
        if _vars_of(got['bulk', 'B'][0].node) != {'Rmin'} or _vars_of(got['gb', 'B'][0].node) != {'Rmin'}:
            raise RuntimeError('nucleationBarrier: the clamped radius is not Rmin')
        emit('nb_bulk_Rcrit', ['f', 'gamma', 'dG'], got['bulk', 'A'][0],
             'nucleationBarrier, bulk/dislocation branch: RcritProposal (guards: dG > 0; Rcrit = amax(proposal, Rmin))')
        emit('nb_bulk_Gcrit', ['gamma', 'R'], got['bulk', 'A'][1],
             'nucleationBarrier, bulk/dislocation branch: Gcrit as a function of the clamped Rcrit; the grain-boundary branch is nbp_Rcrit / nbp_Gcrit (checked at generation)')
        # ---------------------------------------------------------------- zeldovich, beta, tau, rate, radius
        p = prec('bulk', 3e-10)
        p.nucleation = NS(volumeFactor=V('c', 1.3), areaFactor=V('a', 6.0))
        Z = item(R.zeldovich(arr('T', 700.0), arr('R', 3e-9), p))
        if path() != [('ne', True)]:
            raise RuntimeError('zeldovich: guard changed (expected Rcrit != 0)')
        emit('zeldovich', ['kB', 'NA', 'c', 'Vm', 'gamma', 'T', 'R'], Z, 'zeldovich (guard: Rcrit != 0, else 0)')
        therm = NS(getTracerDiffusivity=lambda x, T, removeCache=False: np.array([[V('D0', 1e-20), V('D1', 2e-20)]], dtype=object),
                   impingementFactor=lambda x, T, precPhase=None, removeCache=False, searchDir=None: V('imp', 1e-20))
        matrix = NS(volume=NS(a=V('a0', 4e-10)), theta=V('theta', 2.0))
        b1 = item(R.betaBinary1(therm, arr('x', 0.01), arr('T', 700.0), arr('R', 3e-9), matrix, p))
        b2 = item(R.betaBinary2(therm, arr('x', 0.01), arr('T', 700.0), arr('R', 3e-9), matrix, p, xEqAlpha=V('xa', 0.001), xEqBeta=V('xb', 0.25)))
        bm = item(R.betaMulti(therm, np.array([[V('x1', 0.01), V('x2', 0.02)]], dtype=object), arr('T', 700.0), arr('R', 3e-9), matrix, p))
        if path() != [('ne', True)] * 3:
            raise RuntimeError('beta*: guard changed (expected Rcrit != 0)')
        emit('betaBinary1', ['a', 'a0', 'x', 'D1', 'R'], b1, 'betaBinary1 (guard: Rcrit != 0, else 0)')
        emit('betaBinary2', ['a', 'a0', 'xa', 'xb', 'D0', 'D1', 'R'], b2, 'betaBinary2 (guard: Rcrit != 0, else 0)')
        emit('betaMulti', ['a', 'a0', 'imp', 'R'], bm, 'betaMulti (guard: Rcrit != 0, else 0); imp = therm.impingementFactor')
        tau = item(R.incubationTime(arr('beta', 0.05), arr('Z', 0.03), matrix))
        if path() != [('ne', True)]:
            raise RuntimeError('incubationTime: guard changed (expected Z != 0)')
        emit('incubationTime', ['theta', 'beta', 'Z'], tau, 'incubationTime (guard: Z != 0, else 0)')
        tauS = arr('tau', 100.0)
        nr = item(R.nucleationRate(arr('Z', 0.03), arr('beta', 0.05), arr('G', 5e-20), arr('T', 700.0), tauS, time=V('t', 50.0)))
        pc = path()
        if pc[0] != ('ne', True) or len(pc) != 2 or not pc[1][1]:
            raise RuntimeError('nucleationRate: guards changed: %s (expected Gcrit != 0, amin(exp(-tau/t), 1))' % pc)
        incs = [a for a in _find(nr.node, 'exp') if _vars_of(a) == {'tau', 't'}]
        if len(incs) != 1:
            raise RuntimeError('nucleationRate: incubation factor exp(-tau/t) not found in the trace')
        emit('incubationFactor', ['tau', 't'], Sym(incs[0], math.exp(-2.0)), 'nucleationRate: the incubation term before amin(·, 1)')
        emit('nucleationRate_core', ['kB', 'Z', 'beta', 'G', 'T', 'inc'], Sym(cut(nr.node, {incs[0].id: 'inc'}), nr.val),
             'nucleationRate (guard: Gcrit != 0, else 0) with inc = amin(incubationFactor tau t, 1)')
        rn = item(R.nucleationRadius(arr('T', 700.0), arr('R', 3e-9), p))
        emit('nucleationRadius', ['kB', 'gamma', 'T', 'R'], rn, 'nucleationRadius')
    finally:
        N.np, R.np, R.BOLTZMANN_CONSTANT, R.AVOGADROS_NUMBER = saved
        del sym.PATH[:]

    # ---------------------------------------------------------------- invalidation table, probed on the real class
    table = probe_invalidation(N)
    t = ['/-! ### cache invalidation of NucleationBarrierParameters, probed on the real class:\n'
         'fill every cache with a sentinel, assign through each setter, record which caches were cleared -/\n\n',
         'inductive Cache | gbk | area | vol | rem | arem\n  deriving DecidableEq, Repr\n\n',
         'inductive Setter | gamma | gbEnergy | description\n  deriving DecidableEq, Repr\n\n',
         '/-- `clears s c`: assigning through setter `s` resets cache `c` -/\ndef clears : Setter → Cache → Bool\n']
    for s in ('gamma', 'gbEnergy', 'description'):
        for c, _, _ in CACHES:
            t.append('  | .%s, .%s => %s\n' % (s, c, 'true' if table[s, c] else 'false'))
    t.append('\n')
    text = sym.HEADER + '\nnamespace KawinV.Gen.C14\n\n' + ''.join(out) + ''.join(t) + 'end KawinV.Gen.C14\n'
    changed = vlib.write_if_changed(GEN_FILE, text)
    return [os.path.relpath(GEN_FILE, vlib.VERIF)] if changed else []


def _find(node, op, acc=None, seen=None):
    acc = [] if acc is None else acc
    seen = set() if seen is None else seen
    if node.id in seen:
        return acc
    seen.add(node.id)
    if node.op == op:
        acc.append(node)
    for a in node.args:
        if hasattr(a, 'op'):
            _find(a, op, acc, seen)
    return acc


def probe_invalidation(N):
    """which private caches does each public setter clear?  (real object, sentinel values)"""
    table = {}
    for s in ('gamma', 'gbEnergy', 'description'):
        o = N.NucleationBarrierParameters('grain boundaries', gamma=0.3, gbEnergy=0.3)
        for _, attr, _ in CACHES:
            setattr(o, attr, 12345.0)
        if s == 'gamma':
            o.gamma = 0.25
        elif s == 'gbEnergy':
            o.gbEnergy = 0.25
        else:
            o.setNucleationType('grain edges')
        for c, attr, _ in CACHES:
            table[s, c] = getattr(o, attr) is None
    return table


# =====================================================================================================
# correspondence + direct oracle
# =====================================================================================================
KMAX = {'bulk': math.inf, 'disl': math.inf, 'gb': 1.0, 'edge': math.sqrt(3) / 2, 'corner': math.sqrt(2 / 3)}
PUBLIC = ['gbRemoval', 'areaFactor', 'volumeFactor', 'areaRemoval']    # order of the driver's answers


class Batch:
    """driver lines with a callback per answer"""
    def __init__(self):
        self.lines, self.cbs = [], []

    def add(self, line, cb):
        self.lines.append(line)
        self.cbs.append(cb)

    def run(self, res, enabled):
        if not enabled or not self.lines:
            return
        out = vlib.run_driver(PROP, self.lines)
        for line, o, cb in zip(self.lines, out, self.cbs):
            t = Toks(o)
            if not t.ok:
                res.disagree('model driver error: ' + str(t.err), line[:200], 'ok', o[:200])
            else:
                with Guard(res, 'driver-answer', {'line': line[:200]}, where='comparison callback'):
                    cb(t)


class _Stop(Exception):
    pass


def exc_site(e):
    """innermost frame of an exception that lies inside the tree under test: (function name, file:line) or (None, None)"""
    import traceback
    root = os.path.realpath(vlib.REPO) + os.sep
    fr = [f for f in traceback.extract_tb(e.__traceback__) if os.path.realpath(f.filename).startswith(root)]
    if not fr:
        return None, None
    return fr[-1].name, '%s:%d' % (os.path.relpath(os.path.realpath(fr[-1].filename), root), fr[-1].lineno)


class Guard:
    """`with Guard(res, tag, case):` around one unit of work (one site / parameter set / case / run).
    An exception raised INSIDE the code under test becomes a violation keyed by the raising function and the tag
    (`nucleationBarrier-raises:gb`), with `case` (a dict the unit keeps filling) as the replayable input, and the unit is
    skipped; an exception of the harness itself is recorded (re-raised at the end of corr only if no violation was found).
    Nothing aborts the whole corr()."""
    harness_errors = []

    def __init__(self, res, tag, case, where=None):
        self.res, self.tag, self.case, self.where, self.failed = res, tag, case, where, False

    def __enter__(self):
        return self

    def __exit__(self, et, e, tb):
        if e is None or not isinstance(e, Exception) or isinstance(e, _Stop):
            return False
        import traceback
        self.failed = True
        fn, loc = exc_site(e)
        if fn is None:
            txt = ''.join(traceback.format_exception(et, e, tb))
            Guard.harness_errors.append(txt)
            print('harness error in unit %s/%s:\n%s' % (self.where, self.tag, txt), file=sys.stderr)
        else:
            self.res.count('impl-exception:' + fn)
            self.res.violate('%s-raises:%s' % (fn, self.tag),
                             '%s raised %s: %s (at %s%s)' % (fn, type(e).__name__, str(e)[:200], loc, '; ' + self.where if self.where else ''),
                             dict(self.case), '%s: %s' % (type(e).__name__, str(e)[:300]), 'no exception')
        return True


def fl(x):
    return float(np.asarray(x, dtype=float).reshape(-1)[0])


def classes(N):
    return {'bulk': N.BulkDescription, 'disl': N.DislocationDescription, 'gb': N.GrainBoundaryDescription,
            'edge': N.GrainEdgeDescription, 'corner': N.GrainCornerDescription}


def rand_k(rng, site, allow_above=False):
    kmax = KMAX[site]
    if kmax == math.inf:
        return rng.choice([0.0, rng.uniform(0, 3), 10 ** rng.uniform(-8, 1)])
    mode = rng.choice(['uni', 'uni', 'uni', 'near', 'tiny', 'zero', 'above' if allow_above else 'uni'])
    if mode == 'uni':
        return rng.uniform(0, kmax)
    if mode == 'near':
        return kmax * (1 - 10 ** rng.uniform(-14, -1))
    if mode == 'tiny':
        return 10 ** rng.uniform(-12, -1)
    if mode == 'zero':
        return 0.0
    return rng.choice([kmax, kmax * (1 + 10 ** rng.uniform(-12, -0.5)), rng.uniform(kmax, 2.0)])


GEO_ABS = 1e-2      # with rtol 1e-9: absolute tolerance 1e-11 on O(1..40) cancelling terms


def geo_tol(site, k):
    """absolute tolerance for sign / identity / monotonicity checks on doubles.  Edge and corner formulas are
    ill-conditioned at their limit (arccos of a 0/0-type quotient): rounding noise grows like 1e-16/(1 - k/kmax);
    the theorems are about exact arithmetic, the oracle allows for that noise."""
    if site in ('edge', 'corner'):
        return 1e-11 + 1e-13 / max(1e-16, 1 - k / KMAX[site])
    return 1e-11


def check_geometry(ctx, res, batch, N, n_points):
    cl = classes(N)
    for site in SITES:
        ginfo = {'kind': 'geo', 'site': site}
        with Guard(res, site, ginfo, where='description, array call'):
            d = cl[site]()
            ks = [rand_k(ctx.rng, site, allow_above=True) for _ in range(n_points)]
            karr = np.array(ks, dtype=float)
            ginfo['ks'] = ks
            with np.errstate(all='ignore'):
                inner = {m: None for m in FACTORS}
                pub_arr = {m: np.atleast_1d(getattr(d, m)(karr.copy(), setInvalidToNan=False)) for m in PUBLIC}
                pub_nan = {m: np.atleast_1d(getattr(d, m)(karr.copy())) for m in PUBLIC}
            for i, k in enumerate(ks):
                with Guard(res, site, {'kind': 'geo', 'site': site, 'k': k}, where='description, scalar call'):
                    below = k < KMAX[site]
                    case = {'kind': 'geo', 'site': site, 'k': k}
                    res.case(('geo', site, k), k > 0)
                    res.count('geo:' + site + (':below' if below else ':at-or-above-limit'))
                    with np.errstate(all='ignore'):
                        inn = [fl(getattr(d, m)(np.array([k]))) for m in ['_gbRemoval', '_areaFactor', '_volumeFactor', '_areaRemoval']] if below else None
                        scal = [fl(getattr(d, m)(k, setInvalidToNan=False)) for m in PUBLIC]
                    arrv = [float(pub_arr[m][i]) for m in PUBLIC]
                    nanv = [float(pub_nan[m][i]) for m in PUBLIC]
                    if i < 1:
                        res.sample(dict(case, factors=scal))
                    # scalar call == array call == inner formula under the mask
                    if not vlib.all_close(scal, arrv, 1e-12):
                        res.violate('geo-scalar-vs-array', 'scalar and array calls of the description differ', case, scal, arrv)
                    want = inn if below else [-1.0] * 4
                    if not vlib.all_close(scal, want, 1e-12):
                        res.violate('geo-wrapper-mask', 'public factor is not the inner formula below the limit / the sentinel above', case, scal, want)
                    if below and not vlib.all_close(nanv, inn, 1e-12) or (not below and not all(math.isnan(v) for v in nanv)):
                        res.violate('geo-wrapper-nan', 'default call is not the formula below the limit / NaN above', case, nanv, want)
                    if below:
                        def cb(t, case=case, inn=inn):
                            got = t.flts()
                            for name, a, b in zip(PUBLIC, inn, got):
                                if not close(a, b, 1e-9, GEO_ABS):
                                    res.disagree('generated %s_%s vs kawin' % (case['site'], name), case, a, b)
                        batch.add('gen.geo %s %s' % (site, f2b(k)), cb)

                    def cb2(t, case=case, scal=scal, below=below, site=site):
                        mb = t.bool(); mm = t.flt(); got = t.flts()
                        if mb != below:
                            res.disagree('mask k < maxRatio', case, below, mb)
                        if not close(mm, float(cl[site].maxRatio), 1e-15):
                            res.disagree('maxRatio', case, float(cl[site].maxRatio), mm)
                        for name, a, b in zip(PUBLIC, scal, got):
                            if not close(a, b, 1e-9, GEO_ABS):
                                res.disagree('wrapper %s (setInvalidToNan=False)' % name, case, a, b)
                    batch.add('desc.val %s %s' % (site, f2b(k)), cb2)
                    # ---- direct oracle: identity, sign
                    if below:
                        rem, area, vol, arem = scal
                        lhs, rhs = area - 2 * k * rem, 3 * vol
                        if math.isfinite(lhs) and math.isfinite(rhs) and abs(lhs - rhs) > geo_tol(site, k) + 1e-9 * abs(rhs):
                            res.violate('geo-identity-' + site, 'area - 2k*gbRemoval != 3*volume', case, lhs, rhs)
                        if site in ('edge', 'corner') and 1 - k / KMAX[site] < 1e-12 and not all(math.isfinite(v) for v in scal[:3]):
                            res.near_tie_skipped += 1           # within rounding of the singular limit
                        elif min(rem, area, vol) < -geo_tol(site, k) or not all(math.isfinite(v) for v in scal[:3]):
                            res.violate('geo-negative-' + site, 'a geometric factor is negative or not finite below the limit', case, scal, '>= 0')
            # sphere values at k = 0
            with np.errstate(all='ignore'):
                a0, v0 = fl(d.areaFactor(0.0)), fl(d.volumeFactor(0.0))
            if not close(a0, 4 * math.pi, 1e-12) or not close(v0, 4 * math.pi / 3, 1e-12):
                res.violate('geo-sphere-' + site, 'area/volume factor at k=0 are not the sphere values', {'kind': 'geo', 'site': site, 'k': 0.0}, [a0, v0], [4 * math.pi, 4 * math.pi / 3])


def check_grid(ctx, res, N, n_grid):
    """fine grid up to each limit: sign and monotonicity (proved for the boundary, MONITORED for edge and corner)"""
    cl = classes(N)
    for site in ('gb', 'edge', 'corner'):
        with Guard(res, site, {'kind': 'grid', 'site': site, 'n_grid': n_grid}, where='description on the grid'):
            kmax = KMAX[site]
            off = ctx.rng.random()
            ks = sorted(set([kmax * (i + off) / n_grid for i in range(n_grid)] + [kmax * (1 - 10.0 ** (-j)) for j in range(1, 13)]
                            + [10.0 ** (-j) for j in range(2, 13)] + [0.0]))
            ks = np.array([k for k in ks if k < kmax])
            d = cl[site]()
            with np.errstate(all='ignore'):
                rem, area, vol = d.gbRemoval(ks), d.areaFactor(ks), d.volumeFactor(ks)
            res.count('grid:' + site, len(ks))
            res.case(('grid', site, len(ks), off), True)
            tol = np.array([geo_tol(site, k) for k in ks])
            bad = np.nonzero(~(np.isfinite(rem) & np.isfinite(area) & np.isfinite(vol)) | (rem < -tol) | (area < -tol) | (vol < -tol))[0]
            if len(bad):
                i = int(bad[0])
                res.violate('geo-negative-' + site, 'a geometric factor is negative / not finite on the grid', {'kind': 'geo', 'site': site, 'k': float(ks[i])},
                            [float(rem[i]), float(area[i]), float(vol[i])], '>= 0')
            dv = np.diff(vol)
            inc = np.nonzero(dv > tol[1:] + tol[:-1])[0]
            if len(inc):
                i = int(inc[0])
                res.violate('geo-volume-not-decreasing-' + site, 'volume factor increases with k', {'kind': 'geo', 'site': site, 'k': float(ks[i]), 'k2': float(ks[i + 1])},
                            [float(vol[i]), float(vol[i + 1])], 'decreasing')
            if site == 'gb':
                want = (2 * math.pi / 3) * (1 - ks) ** 2 * (2 + ks)
                j = np.nonzero(np.abs(vol - want) > 1e-11)[0]
                if len(j):
                    res.violate('geo-gb-closed-form', 'boundary volume factor != (2pi/3)(1-k)^2(2+k)', {'kind': 'geo', 'site': site, 'k': float(ks[j[0]])}, float(vol[j[0]]), float(want[j[0]]))


def make_prec(ctx, N, site, shapes=True):
    """a real PrecipitateParameters with valid random parameters; returns (prec, description of the case)"""
    with warnings.catch_warnings():
        warnings.simplefilter('ignore')
        from kawin.precipitation import PrecipitateParameters
    rng = ctx.rng
    prec = PrecipitateParameters('P')
    gamma = rng.choice([0.1, 0.2, 10 ** rng.uniform(-2, 0.3)])
    k = 0.0
    if KMAX[site] < math.inf:
        k = rand_k(rng, site)
        # edge/corner formulas are ill-conditioned in doubles next to their limit (see geo_tol): rounding noise can
        # exceed the (vanishing) factors there; that region is covered by check_geometry with scaled tolerances
        lim = 1 - 1e-3 if site in ('edge', 'corner') else 1 - 1e-6     # boundary: 2 - 3k + k^3 cancels to 0.0 below 1 - k ~ 1e-8
        if k >= KMAX[site] * lim:
            k = KMAX[site] * rng.uniform(0.9, 0.999)
    gbE = 2 * k * gamma if KMAX[site] < math.inf else rng.choice([0.3, 0.5, 0.0])
    prec.gamma = gamma
    prec.nucleation.gbEnergy = gbE
    shape, ar = 'sphere', 1.0
    if KMAX[site] == math.inf and shapes and rng.random() < 0.4:
        shape = rng.choice(['needle', 'plate', 'cubic'])
        ar = rng.uniform(1.0, 6.0)
        prec.shapeFactor.setPrecipitateShape(shape, ar)
    prec.nucleation.setNucleationType(SITE_NAMES[site])
    prec.Rmin = rng.choice([3e-10, 10 ** rng.uniform(-10.5, -8.5)])
    prec.volume.setVolume(10 ** rng.uniform(-5.3, -4.7), 'VM', 4)
    with np.errstate(all='ignore'):
        f = fl(prec.shapeFactor.description.thermoFactor(ar))
        a, b, c = fl(prec.nucleation.areaFactor), fl(prec.nucleation.gbRemoval), fl(prec.nucleation.volumeFactor)
    return prec, dict(site=site, gamma=gamma, gbE=gbE, k=k, shape=shape, ar=ar, Rmin=prec.Rmin, Vm=prec.volume.Vm, f=f, a=a, b=b, c=c)


def rand_dG(rng):
    m = rng.choice(['pos', 'pos', 'pos', 'pos', 'neg', 'zero', 'huge'])
    if m == 'pos':
        return 10 ** rng.uniform(-2, 11)
    if m == 'huge':
        return 10 ** rng.uniform(9, 18)
    if m == 'neg':
        return -10 ** rng.uniform(-2, 12)
    return 0.0


def check_barrier(ctx, res, batch, N, R, n_prec, n_dg):
    def barrier_call(dG, prec, ar):
        with np.errstate(all='ignore'), warnings.catch_warnings():
            warnings.simplefilter('ignore')
            Rc, Gc = R.nucleationBarrier(dG, prec, aspectRatio=ar)
        return np.atleast_1d(Rc).astype(float), np.atleast_1d(Gc).astype(float)

    for _ in range(n_prec):
        site = ctx.rng.choice(SITES)
        isGB = KMAX[site] < math.inf
        info = {'kind': 'barrier-array', 'site': site}
        unit = Guard(res, site, info, where='precipitate set-up / array call of nucleationBarrier')
        with unit:
            prec, d = make_prec(ctx, N, site)
            dGs = np.array([rand_dG(ctx.rng) for _ in range(n_dg)])
            info.update(d, dGs=dGs.tolist())
            Rc, Gc = barrier_call(dGs.copy(), prec, d['ar'])
        if unit.failed:
            continue
        # an array without any positive driving force (the masks select nothing): zeros, no exception
        npos = np.array([-abs(v) if ctx.rng.random() < 0.7 else 0.0 for v in dGs[:3]])
        with Guard(res, site, dict(info, dGs=npos.tolist()), where='array call of nucleationBarrier without a positive driving force'):
            Rn, Gn = barrier_call(npos.copy(), prec, d['ar'])
            res.count('barrier:array-without-positive-dG')
            if np.any(Rn != 0) or np.any(Gn != 0):
                res.violate('barrier-nonzero-at-nonpositive-dG', 'Rcrit/Gcrit not zero for an array of non-positive driving forces', dict(info, dGs=npos.tolist()), [Rn.tolist(), Gn.tolist()], 'zeros')
        # scalar call per entry == array call (every entry; the array is part of the failing input)
        with Guard(res, site, info, where='scalar calls of nucleationBarrier'):
            sc = [barrier_call(float(v), prec, d['ar']) for v in dGs]
            Rs1, Gs1 = np.array([fl(a) for a, _ in sc]), np.array([fl(b) for _, b in sc])
            if len(set(v for v in dGs.tolist() if v > 0)) >= 2:
                res.count('barrier:array>=2-distinct-positive-dG:' + ('gb-kind' if isGB else 'bulk-kind'))
            if not (vlib.all_close(Rs1, Rc, 1e-13) and vlib.all_close(Gs1, Gc, 1e-13)):
                res.violate('barrier-scalar-vs-array:' + site, 'array call of nucleationBarrier differs from the scalar calls entry by entry',
                            dict(info), {'Rcrit': Rc.tolist(), 'Gcrit': Gc.tolist()}, {'Rcrit': Rs1.tolist(), 'Gcrit': Gs1.tolist()})
        # the value must not depend on the numeric TYPE of the driving-force argument (python int, numpy integer, list of ints,
        # integer array, float32 array): same numbers, same answer
        ints = [int(10 ** ctx.rng.uniform(7, 10.5)) for _ in range(3)]
        with Guard(res, site, dict(info, dGs=ints), where='nucleationBarrier with integer-typed driving forces'):
            Rf, Gf = barrier_call(np.array(ints, dtype=float), prec, d['ar'])
            forms = {'int64-array': np.array(ints, dtype=np.int64), 'list-of-ints': list(ints), 'python-int': ints[0],
                     'numpy-int64': np.int64(ints[0]), 'int32-array': np.array([min(v, 2 ** 31 - 1) for v in ints], dtype=np.int32)}
            res.count('barrier:argument-type-forms', len(forms))
            for nm, arg in forms.items():
                if nm == 'int32-array':
                    Rw, Gw = barrier_call(np.array(arg, dtype=float), prec, d['ar'])
                else:
                    Rw, Gw = (Rf, Gf) if nm.endswith('array') or nm.startswith('list') else (Rf[:1], Gf[:1])
                Rg, Gg = barrier_call(arg, prec, d['ar'])
                if not (vlib.all_close(Rg, Rw, 1e-12) and vlib.all_close(Gg, Gw, 1e-12)):
                    res.violate('barrier-depends-on-argument-type:' + nm, 'nucleationBarrier gives a different answer for the same driving force(s) '
                                'passed as ' + nm + ' instead of floats', dict(info, dGs=ints, form=nm),
                                {'Rcrit': Rg.tolist(), 'Gcrit': Gg.tolist()}, {'Rcrit': Rw.tolist(), 'Gcrit': Gw.tolist()})
        for i, dG in enumerate(dGs):
            case = dict(d, kind='barrier', dG=float(dG), dGs=dGs.tolist(), index=i)
            res.case(('barrier', site, d['gamma'], d['k'], d['Rmin'], float(dG)), dG > 0)
            res.count('barrier:' + ('gb-kind' if isGB else 'bulk-kind') + (':dG>0' if dG > 0 else ':dG<=0'))
            r, g = float(Rc[i]), float(Gc[i])
            with Guard(res, site, case, where='barrier, one entry'):
                if isGB and dG > 0:
                    # NucleationBarrierParameters.Rcrit / Gcrit directly, scalar and array argument
                    with np.errstate(all='ignore'):
                        r1 = fl(prec.nucleation.Rcrit(dG)); r2 = fl(prec.nucleation.Rcrit(np.array([dG, 2 * dG]))[0])
                        g1 = fl(prec.nucleation.Gcrit(dG, r)); g2 = fl(prec.nucleation.Gcrit(np.array([dG, dG]), np.array([r, r]))[1])

                    def cbn(t, case=case, r1=r1, g1=g1, r2=r2, g2=g2):
                        got = t.flts()
                        sc = abs(case['a'] * case['gamma']) * case['Rmin'] ** 2
                        if not (close(r1, got[0], 1e-9) and close(r2, got[0], 1e-9)):
                            res.disagree('generated nbp_Rcrit vs kawin', case, [r1, r2], got[0])
                        if not (close(g1, got[1], 1e-9, sc) and close(g2, got[1], 1e-9, sc)):
                            res.disagree('generated nbp_Gcrit vs kawin', case, [g1, g2], got[1])
                        if not close(case['k'], got[2], 1e-12):
                            res.disagree('generated gbRatio vs kawin', case, case['k'], got[2])
                    batch.add('gen.nbp %s' % ' '.join(f2b(v) for v in (d['a'], d['b'], d['c'], d['gamma'], d['gbE'], dG, r)), cbn)

                def cb(t, case=case, r=r, g=g):
                    got = t.flts()
                    sc = abs(case['a'] * case['gamma']) * max(r, case['Rmin']) ** 2
                    if not close(r, got[0], 1e-9) or not close(g, got[1], 1e-9, sc * 1e-3):
                        res.disagree('nucleationBarrier', case, [r, g], got)
                batch.add('nr.barrier %s %s' % (vlib.enc_bool(isGB), ' '.join(f2b(v) for v in (d['f'], d['gamma'], d['a'], d['b'], d['c'], d['gbE'], d['Rmin'], dG))), cb)
                # ---- direct oracle
                if dG > 0:
                    if not (math.isfinite(r) and math.isfinite(g)):
                        res.violate('barrier-not-finite', 'Rcrit/Gcrit not finite for positive driving force', case, [r, g], 'finite')
                    elif r < d['Rmin']:
                        res.violate('barrier-rcrit-below-rmin', 'Rcrit < Rmin for positive driving force', case, r, d['Rmin'])
                    elif g < 0:
                        if isGB and dG * d['Rmin'] > 3 * d['gamma']:
                            res.violate('gcrit-negative-gb-rmin', 'grain-boundary site types: Gcrit < 0 when dG*Rmin > 3*gamma (barrier evaluated at the clamped radius)', case, g, '>= 0')
                        else:
                            res.violate('barrier-gcrit-negative', 'Gcrit < 0 for positive driving force', case, g, '>= 0')
                    if isGB and 2 * d['gamma'] / dG >= d['Rmin'] and d['c'] > 1e-9:
                        # unclamped: the sphere's radius, barrier = volume/(4pi/3) * spherical barrier
                        rs = 2 * d['gamma'] / dG
                        gs = d['c'] / (4 * math.pi / 3) * (4 * math.pi / 3) * d['gamma'] * rs ** 2
                        tol = 1e-9 + 1e-12 / d['c']          # the factors carry an absolute error ~1e-16 each
                        if not close(r, rs, tol) or not close(g, gs, 10 * tol):
                            res.violate('barrier-not-sphere-' + site, 'Rcrit != 2*gamma/dG or Gcrit != (volume/(4pi/3)) * spherical barrier', case, [r, g], [rs, gs])
                else:
                    if r != 0 or g != 0:
                        res.violate('barrier-nonzero-at-nonpositive-dG', 'Rcrit/Gcrit not zero for dG <= 0', case, [r, g], [0, 0])


def stub_therm(seed):
    """deterministic stand-in for the thermodynamics object used by the beta functions"""
    NS = types.SimpleNamespace

    def D(x, T, removeCache=False):
        x = np.atleast_1d(np.asarray(x, dtype=float)); T = np.atleast_1d(np.asarray(T, dtype=float))
        d0 = 1e-5 * np.exp(-1.4e5 / (8.314 * T)) * (1 + 0.1 * seed)
        d1 = 7e-2 * np.exp(-2.4e5 / (8.314 * T)) * (1 + x)
        return np.squeeze(np.stack([d0, d1], axis=-1))

    def imp(x, T, precPhase=None, removeCache=False, searchDir=None):
        return 1e-19 * (1 + float(np.sum(x))) * float(T) / 700.0 * (1 + 0.1 * seed)

    def eq(T, gExtra, phase):
        T = np.atleast_1d(T)
        return 1e-4 * T / 700.0, 0.25 * np.ones(T.shape)
    return NS(getTracerDiffusivity=D, impingementFactor=imp, getInterfacialComposition=eq)


def check_chain(ctx, res, batch, N, R, n_prec, n_pts):
    with warnings.catch_warnings():
        warnings.simplefilter('ignore')
        from kawin.precipitation import MatrixParameters
    kB, NA = float(R.BOLTZMANN_CONSTANT), float(R.AVOGADROS_NUMBER)
    rng = ctx.rng
    for ip in range(n_prec):
        site = rng.choice(SITES)
        base = {'kind': 'chain', 'site': site}
        unit = Guard(res, site, base, where='NucleationRate functions, array calls')
        prec, d = None, None
        with unit:
            prec, d = make_prec(ctx, N, site, shapes=False)
            base.update(d)
            matrix = MatrixParameters(['B'])
            a0 = 10 ** rng.uniform(-9.6, -9.2)
            matrix.volume.setVolume(a0, 'a', 4)
            matrix.theta = rng.choice([2, 2, 1.0, 4 * math.pi])
            seed = rng.randint(0, 5)
            therm = stub_therm(seed)
            n = n_pts
            T = np.array([rng.uniform(300, 1500) for _ in range(n)])
            x = np.array([10 ** rng.uniform(-5, -1) for _ in range(n)])
            Rc = np.array([rng.choice([0.0, d['Rmin'], 10 ** rng.uniform(-10, -7)]) for _ in range(n)])
            Rc[0] = 10 ** rng.uniform(-10, -8)
            base.update(a0=a0, theta=matrix.theta, thermseed=seed, Ts=T.tolist(), xs=x.tolist(), Rcrits=Rc.tolist())
            with np.errstate(all='ignore'), warnings.catch_warnings():
                warnings.simplefilter('ignore')
                Z = np.atleast_1d(R.zeldovich(T, Rc, prec))
                b1 = np.atleast_1d(R.betaBinary1(therm, x, T, Rc, matrix, prec))
                xa, xb = 10 ** rng.uniform(-5, -2), rng.uniform(0.2, 0.8)
                b2 = np.atleast_1d(R.betaBinary2(therm, x, T, Rc, matrix, prec, xEqAlpha=xa, xEqBeta=xb))
                b2n = np.atleast_1d(R.betaBinary2(therm, x, T, Rc, matrix, prec))
                x2 = np.stack([x, 0.5 * x], axis=-1)
                bm = np.atleast_1d(R.betaMulti(therm, x2, T, Rc, matrix, prec))
                beta = b1.copy()
                Zt = Z.copy()
                if n > 2:
                    Zt[1] = 0.0
                tau = np.atleast_1d(R.incubationTime(beta, Zt, matrix))
                G = np.array([rng.choice([0.0, 10 ** rng.uniform(-21, -18) * 5]) for _ in range(n)])
                G[0] = kB * T[0] * rng.uniform(1, 60)
                tauv = np.where(np.isfinite(tau), tau, 0.0)
                t1 = 10 ** rng.uniform(-2, 5)
                t2 = t1 * rng.uniform(1.0, 50.0)
                nr1 = np.atleast_1d(R.nucleationRate(Z, beta, G, T, tauv, time=t1))
                nr2 = np.atleast_1d(R.nucleationRate(Z, beta, G, T, tauv, time=t2))
                nri = np.atleast_1d(R.nucleationRate(Z, beta, G, T, tauv))
                rad = np.atleast_1d(R.nucleationRadius(T, Rc, prec))
                D = np.atleast_2d(therm.getTracerDiffusivity(x, T))
        if unit.failed:
            continue
        for i in range(n):
            case = dict(base, T=float(T[i]), x=float(x[i]), Rcrit=float(Rc[i]), G=float(G[i]), t1=t1, t2=t2, xa=xa, xb=xb)
            with Guard(res, site, case, where='NucleationRate functions, one entry'):
                nontriv = Rc[i] != 0 and G[i] != 0
                res.case(('chain', site, d['gamma'], d['k'], float(T[i]), float(Rc[i]), float(G[i])), nontriv)
                res.count('chain:' + ('R=0' if Rc[i] == 0 else 'R!=0') + (',G=0' if G[i] == 0 else ',G!=0'))
                if i == 0:      # scalar calls
                    with np.errstate(all='ignore'), warnings.catch_warnings():
                        warnings.simplefilter('ignore')
                        sc = [fl(R.zeldovich(T[0], Rc[0], prec)), fl(R.betaBinary1(therm, x[0], T[0], Rc[0], matrix, prec)),
                              fl(R.betaBinary2(therm, x[0], T[0], Rc[0], matrix, prec, xEqAlpha=xa, xEqBeta=xb)),
                              fl(R.betaMulti(therm, x2[0], T[0], Rc[0], matrix, prec)),
                              fl(R.incubationTime(beta[0], Zt[0], matrix)), fl(R.nucleationRate(Z[0], beta[0], G[0], T[0], tauv[0], time=t1)),
                              fl(R.nucleationRadius(T[0], Rc[0], prec))]
                    ar = [Z[0], b1[0], b2[0], bm[0], tau[0], nr1[0], rad[0]]
                    if not vlib.all_close(sc, ar, 1e-13):
                        res.violate('chain-scalar-vs-array', 'scalar and array calls of the NucleationRate functions differ', case, sc, [float(v) for v in ar])
                    res.sample(dict(case, Z=float(Z[0]), beta=float(b1[0]), tau=float(tau[0]), rate=float(nr1[0])))
                imp = therm.impingementFactor(x2[i], T[i])
                xan, xbn = therm.getInterfacialComposition(T[i], 0, 'X')

                def mk(name, want, case=case):
                    def cb(t):
                        got = t.flt()
                        if not close(want, got, 1e-9):
                            res.disagree(name, case, float(want), got)
                    return cb
                batch.add('nr.zeld ' + ' '.join(f2b(v) for v in (kB, NA, d['c'], d['Vm'], d['gamma'], T[i], Rc[i])), mk('zeldovich', Z[i]))
                batch.add('nr.beta1 ' + ' '.join(f2b(v) for v in (d['a'], a0, x[i], D[i, 1], Rc[i])), mk('betaBinary1', b1[i]))
                batch.add('nr.beta2 ' + ' '.join(f2b(v) for v in (d['a'], a0, xa, xb, D[i, 0], D[i, 1], Rc[i])), mk('betaBinary2', b2[i]))
                batch.add('nr.beta2 ' + ' '.join(f2b(v) for v in (d['a'], a0, fl(xan), fl(xbn), D[i, 0], D[i, 1], Rc[i])), mk('betaBinary2 (interfacial composition from therm)', b2n[i]))
                batch.add('nr.betam ' + ' '.join(f2b(v) for v in (d['a'], a0, imp, Rc[i])), mk('betaMulti', bm[i]))
                if math.isfinite(tau[i]):
                    batch.add('nr.tau ' + ' '.join(f2b(v) for v in (matrix.theta, beta[i], Zt[i])), mk('incubationTime', tau[i]))

                def cbr(t, case=case, w1=float(nr1[i]), wi=float(nri[i])):
                    got = t.flts()
                    if not close(w1, got[0], 1e-9) or not close(wi, got[1], 1e-9):
                        res.disagree('nucleationRate (finite time, steady state)', case, [w1, wi], got)
                batch.add('nr.rate ' + ' '.join(f2b(v) for v in (kB, Z[i], beta[i], G[i], T[i], tauv[i], t1)), cbr)
                batch.add('nr.radius ' + ' '.join(f2b(v) for v in (kB, d['gamma'], T[i], Rc[i])), mk('nucleationRadius', rad[i]))
                # ---- direct oracle
                vals = dict(Z=Z[i], beta1=b1[i], beta2=b2[i], betaMulti=bm[i], rate=nr1[i], steady=nri[i])
                for nm, v in vals.items():
                    if not math.isfinite(v) or v < 0:
                        res.violate('chain-%s-negative-or-not-finite' % nm, '%s is negative or not finite for valid parameters' % nm, case, float(v), '>= 0, finite')
                if Rc[i] != 0 and d['c'] > 0 and not (Z[i] > 0 and b1[i] > 0 and b2[i] > 0):
                    res.violate('chain-not-positive', 'Zeldovich factor / impingement rate not positive at a non-zero critical radius', case, [float(Z[i]), float(b1[i]), float(b2[i])], '> 0')
                if Rc[i] == 0 and (Z[i] != 0 or b1[i] != 0 or b2[i] != 0 or bm[i] != 0):
                    res.violate('chain-nonzero-at-R0', 'Z/beta not zero at zero critical radius', case)
                if Zt[i] != 0 and beta[i] > 0 and not (math.isfinite(tau[i]) and tau[i] > 0):
                    res.violate('chain-tau', 'incubation time not positive/finite under the guards', case, float(tau[i]), '> 0')
                if G[i] == 0 and (nr1[i] != 0 or nri[i] != 0):
                    res.violate('chain-rate-nonzero-at-G0', 'nucleation rate not zero for zero barrier', case, [float(nr1[i]), float(nri[i])], 0)
                if nri[i] > 0:
                    f1, f2 = nr1[i] / nri[i], nr2[i] / nri[i]
                    if not (0 <= f1 <= 1 + 1e-12 and 0 <= f2 <= 1 + 1e-12):
                        res.violate('incubation-factor-range', 'incubation factor outside [0,1]', case, [f1, f2], '[0,1]')
                    if f1 > f2 * (1 + 1e-12):
                        res.violate('incubation-factor-not-increasing', 'incubation factor decreases with time', case, [f1, f2], 'non-decreasing in t')
        # ---- steady-state rate vs driving force at fixed T, x, D (real chain barrier -> Z -> beta -> rate)
        sinfo = dict(base, kind='steady')
        with Guard(res, site, sinfo, where='steady-state chain barrier -> Z -> beta -> rate on an array of driving forces'):
            T0, x0 = float(T[0]), float(x[0])
            dGs = np.sort(np.array([rand_dG(rng) for _ in range(max(6, n_pts))]))
            sinfo.update(T=float(T[0]), x=float(x[0]), dGs=dGs.tolist())
            with np.errstate(all='ignore'), warnings.catch_warnings():
                warnings.simplefilter('ignore')
                Rs, Gs = R.nucleationBarrier(dGs, prec)
                Rs, Gs = np.atleast_1d(Rs), np.atleast_1d(Gs)
                Tn, xn = T0 * np.ones(len(dGs)), x0 * np.ones(len(dGs))
                Zs = np.atleast_1d(R.zeldovich(Tn, Rs, prec))
                bfun = rng.choice([1, 2])
                bs = np.atleast_1d(R.betaBinary1(therm, xn, Tn, Rs, matrix, prec) if bfun == 1 else R.betaBinary2(therm, xn, Tn, Rs, matrix, prec, xEqAlpha=xa, xEqBeta=xb))
                taus = np.atleast_1d(R.incubationTime(bs, Zs, matrix))
                rates = np.atleast_1d(R.nucleationRate(Zs, bs, Gs, Tn, np.where(np.isfinite(taus), taus, 0.0)))
            isGB = KMAX[site] < math.inf
            for j in range(len(dGs) - 1):
                case = dict(base, kind='steady', T=T0, x=x0, dG1=float(dGs[j]), dG2=float(dGs[j + 1]), beta=bfun)
                res.case(('steady', site, d['gamma'], d['k'], T0, float(dGs[j]), float(dGs[j + 1])), dGs[j + 1] > 0)
                if dGs[j] <= 0 and rates[j] != 0:
                    res.violate('rate-nonzero-at-nonpositive-dG', 'steady-state rate not zero for dG <= 0', case, float(rates[j]), 0)
                if rates[j + 1] < rates[j] * (1 - 1e-9):
                    if isGB and dGs[j + 1] * d['Rmin'] >= 3 * d['gamma'] * (1 - 1e-12):
                        res.violate('gcrit-negative-gb-rmin', 'grain-boundary site types: Gcrit <= 0 when dG*Rmin >= 3*gamma (rate guard Gcrit != 0 / barrier at the clamped radius)', case, [float(rates[j]), float(rates[j + 1])], 'non-decreasing')
                    else:
                        res.violate('steady-rate-decreases-with-dG', 'steady-state nucleation rate decreases with driving force at fixed T', case, [float(rates[j]), float(rates[j + 1])], 'non-decreasing')
                zb = Zs * bs
                if Rs[j] != 0 and Rs[j + 1] != 0 and not close(zb[j], zb[j + 1], 1e-9):
                    res.violate('Zbeta-depends-on-Rcrit', 'Z*beta changes with the critical radius', case, [float(zb[j]), float(zb[j + 1])], 'equal')


def check_tauni(ctx, res, batch, R, n_cases):
    with warnings.catch_warnings():
        warnings.simplefilter('ignore')
        from kawin.precipitation import MatrixParameters
    rng = ctx.rng
    for _ in range(n_cases):
        tinfo = {'kind': 'tauni'}
        with Guard(res, 'history', tinfo, where='incubationTimeNonIsothermal'):
            m = rng.choice([1, 1, 2, 3, 5, 8, 13])
            matrix = MatrixParameters(['B'])
            matrix.theta = rng.choice([2, 2, 1.0])
            dts = [10 ** rng.uniform(-2, 2) for _ in range(m)]
            t0 = rng.choice([0.0, rng.uniform(0, 100)])
            times = np.array([t0 + sum(dts[:i]) for i in range(m)])
            kind = rng.choice(['const', 'rise', 'zero-then-pos', 'random'])
            scale = 10 ** rng.uniform(-3, 3)
            if kind == 'const':
                betas = scale * np.ones(m)
            elif kind == 'rise':
                betas = scale * np.linspace(0.1, 1, m)
            elif kind == 'zero-then-pos':
                betas = scale * (np.arange(m) >= m // 2)
            else:
                betas = scale * np.array([rng.random() for _ in range(m)])
            temps = np.array([rng.uniform(600, 900) for _ in range(m)])
            Z = 10 ** rng.uniform(-2.5, -0.5)
            currBeta = scale * rng.uniform(0.1, 2)
            currTime = float(times[-1] + 10 ** rng.uniform(-2, 2))
            currTemp = rng.uniform(600, 900)
            tinfo.update(m=m, times=times.tolist(), betas=betas.tolist(), temps=temps.tolist(), Z=Z, currBeta=currBeta, currTime=currTime, currTemp=currTemp, theta=matrix.theta)
            # choose theta*Z^2 scale so that the crossing happens inside / outside the history
            with np.errstate(all='ignore'), warnings.catch_warnings():
                warnings.simplefilter('ignore')
                tau = float(R.incubationTimeNonIsothermal(np.squeeze(np.array(Z)), currBeta, currTime, currTemp, betas, times, temps, matrix))
            case = dict(kind='tauni', m=m, times=times.tolist(), betas=betas.tolist(), temps=temps.tolist(), Z=Z, currBeta=currBeta, currTime=currTime, currTemp=currTemp, theta=matrix.theta)
            res.case(('tauni', m, kind, Z, currBeta, currTime), m > 1)
            res.count('tauni:m=%s' % ('1' if m == 1 else '>1'))

            def cb(t, case=case, tau=tau):
                got = t.flt()
                if not close(tau, got, 1e-9, 1e-9 * case['currTime']):
                    res.disagree('incubationTimeNonIsothermal', case, tau, got)
            batch.add('nr.tauni %s %s %s %s' % (' '.join(f2b(v) for v in (matrix.theta, Z, currBeta, currTime, currTemp)), enc_list(betas), enc_list(times), enc_list(temps)), cb)
            if not (math.isfinite(tau) and tau >= -1e-9 * currTime):
                res.violate('tau-nonisothermal-negative', 'incubationTimeNonIsothermal is negative or not finite', case, tau, '>= 0')


# ---------------------------------------------------------------- cached factors: op sequences
def classify(e):
    s = str(e)
    if 'gamma' in s and 'not set' in s:
        return 'err-gamma'
    if 'gbEnergy' in s and 'not set' in s:
        return 'err-gb'
    if 'too large' in s:
        return 'err-ratio'
    return 'err-other:' + s[:60]


def read_slot(o, slot):
    try:
        with np.errstate(all='ignore'):
            return fl(getattr(o, dict((c, p) for c, _, p in CACHES)[slot]))
    except Exception as e:       # ValueError is the documented refusal; anything else is reported as its own class
        return classify(e) if isinstance(e, ValueError) else 'err-other:%s:%s' % (type(e).__name__, str(e)[:60])


def gen_ops(rng):
    site0 = rng.choice(SITES)
    g0 = rng.choice([None, 0.1, 0.2, 0.3, 0.5])
    e0 = rng.choice([0.3, 0.3, None, 0.2])
    ops = []
    gam = g0
    for _ in range(rng.randint(1, 14)):
        r = rng.random()
        if r < 0.22:
            gam = rng.choice([None, 0, 0.15, 0.25, 0.5, round(rng.uniform(0.05, 1.0), 3), rng.uniform(0.05, 1.0)])
            ops.append(('G', gam))
        elif r < 0.40:
            v = rng.choice([None, 0.0, 0.3, 0.5, rng.uniform(0.0, 1.0)])
            if gam and rng.random() < 0.3:
                v = 2 * gam * rng.choice([1.0, math.sqrt(3) / 2, math.sqrt(2 / 3), 0.5])     # ratio exactly at a limit
            ops.append(('E', v))
        elif r < 0.55:
            ops.append(('D', rng.choice(SITES)))
        else:
            ops.append(('g', rng.choice([c for c, _, _ in CACHES])))
    ops.append(('g', rng.choice([c for c, _, _ in CACHES])))
    return site0, g0, e0, ops


def enc_opt(v):
    return 'none' if v is None else f2b(v)


def check_ops(ctx, res, batch, N, n_seq):
    with warnings.catch_warnings():
        warnings.simplefilter('ignore')
        from kawin.precipitation import PrecipitateParameters
    cl = classes(N)
    for _ in range(n_seq):
        site0, g0, e0, ops = gen_ops(ctx.rng)
        via_prec = ctx.rng.random() < 0.35
        oinfo = dict(kind='ops', site0=site0, gamma0=g0, gbE0=e0, ops=ops, via_prec=via_prec)
        with Guard(res, 'ops', oinfo, where='NucleationBarrierParameters setter / getter sequence'):
            if via_prec:
                site0, g0, e0 = 'disl', None, 0.3
                prec = PrecipitateParameters('P')
                o = prec.nucleation
            else:
                o = N.NucleationBarrierParameters(SITE_NAMES[site0], gamma=g0, gbEnergy=e0)
            cur = dict(site=site0, gamma=g0, gbE=e0)
            oinfo.update(site0=site0, gamma0=g0, gbE0=e0)
            impl, toks = [], []
            case = dict(kind='ops', site0=site0, gamma0=g0, gbE0=e0, ops=ops, via_prec=via_prec)
            res.case(('ops', site0, g0, e0, tuple(ops), via_prec), any(op == 'g' for op, _ in ops[:-1]) and any(op != 'g' for op, _ in ops))
            for op, v in ops:
                res.count('op:' + op)
                if op == 'G':
                    if via_prec:
                        prec.gamma = v
                    else:
                        o.gamma = v
                    cur['gamma'] = v; toks += ['G', enc_opt(v)]
                elif op == 'E':
                    o.gbEnergy = v
                    cur['gbE'] = v; toks += ['E', enc_opt(v)]
                elif op == 'D':
                    if ctx.rng.random() < 0.5:
                        o.setNucleationType(SITE_NAMES[v])
                    else:
                        o.description = cl[v]()
                    cur['site'] = v; toks += ['D', v]
                else:
                    got = read_slot(o, v)
                    impl.append(got)
                    toks += ['g', v]
                    # direct oracle: the getter equals a fresh computation on the current parameters
                    fresh = read_slot(N.NucleationBarrierParameters(SITE_NAMES[cur['site']], gamma=cur['gamma'], gbEnergy=cur['gbE']), v)
                    same = (got == fresh) if isinstance(got, str) or isinstance(fresh, str) else close(got, fresh, 1e-13)
                    if not same:
                        res.violate('cached-factor-stale:' + v, 'a cached factor does not follow an assignment of gamma / gbEnergy / description', dict(case, at=len(impl) - 1, current=dict(cur)), got, fresh)
                    if not isinstance(got, str) and v != 'gbk' and isinstance(fresh, str):
                        pass        # a value where the fresh object refuses (parameters unset / ratio too large): reported above as stale
                    elif not isinstance(got, str) and v != 'gbk':
                        kcur = cur['gbE'] / (2 * cur['gamma'])
                        if kcur >= KMAX[cur['site']]:
                            res.violate('factor-sentinel-at-limit', 'a factor getter returned a value (the -1 sentinel of the description) instead of raising: energy ratio at/above the limit',
                                        dict(case, at=len(impl) - 1, current=dict(cur)), got, 'ValueError')
                        elif cur['site'] in ('edge', 'corner') and 1 - kcur / KMAX[cur['site']] < 1e-9:
                            res.near_tie_skipped += 1       # within rounding of the singular limit: 0/0-type quotient, value is noise (may be NaN)
                        elif got < -geo_tol(cur['site'], kcur) or not math.isfinite(got):
                            res.violate('factor-negative-from-getter', 'a factor getter returned a negative / non-finite value below the limit',
                                        dict(case, at=len(impl) - 1, current=dict(cur)), got, '>= 0')
                    res.count('get:' + (got if isinstance(got, str) else 'value'))

            def cb(t, case=case, impl=impl):
                n = t.nat()
                got = [t.tok() for _ in range(n)]
                if n != len(impl):
                    res.disagree('op sequence: number of answers', case, len(impl), n); return
                for i, (a, b) in enumerate(zip(impl, got)):
                    if isinstance(a, str):
                        ok = a == b
                    else:
                        ok = not b.startswith('err') and close(a, vlib.b2f(b), 1e-9, GEO_ABS)
                    if not ok:
                        res.disagree('cached-factor state machine, read #%d' % i, case, a, b if b.startswith('err') or b == 'nan' else vlib.b2f(b)); break
            nops = len(ops)
            batch.add('nbp.ops %s %s %s %d %s' % (site0, enc_opt(g0), enc_opt(e0), nops, ' '.join(toks)), cb)


# ---------------------------------------------------------------- nucleation sites
def check_sites(ctx, res, batch, N, R, n_cases):
    with warnings.catch_warnings():
        warnings.simplefilter('ignore')
        from kawin.precipitation import PrecipitateParameters, MatrixParameters
        from kawin.precipitation.KWNEuler import PrecipitateModel
        from kawin.precipitation.PopulationBalance import PopulationBalanceModel
    NS = types.SimpleNamespace
    rng = ctx.rng
    NA = float(R.AVOGADROS_NUMBER)
    forced = [[a] for a in SITES] + [[a, b] for a in SITES for b in SITES if a != b] + [[a, a] for a in SITES]
    for icase in range(max(n_cases, len(forced))):
        sinfo = {'kind': 'sites'}
        with Guard(res, 'sites', sinfo, where='_calcNucleationSites on random populations'):
            force = forced[icase] if icase < len(forced) else None
            nph = len(force) if force else rng.choice([1, 1, 2, 3, 4])
            matrix = MatrixParameters(['B'])
            matrix.volume.setVolume(10 ** rng.uniform(-5.2, -4.8), 'VM', 4)
            matrix.initComposition = 10 ** rng.uniform(-4, -1.5)
            matrix.nucleationSites.setNucleationDensity(grainSize=10 ** rng.uniform(-1, 2), aspectRatio=rng.choice([1, 1, 2.5]), dislocationDensity=10 ** rng.uniform(11, 15))
            ns = matrix.nucleationSites
            cfg = [float(ns.bulkN0), float(ns.dislocationN0), float(ns.GBareaN0), float(ns.GBedgeN0), float(ns.GBcornerN0), NA, float(matrix.volume.Vm)]
            precs, pbms, xs, descs = [], [], [], []
            common = rng.choice(SITES)
            for q in range(nph):
                site = force[q] if force else (common if rng.random() < 0.6 else rng.choice(SITES))
                prec, d = make_prec(ctx, N, site, shapes=False)
                bins = rng.choice([1, 3, 10, 40])
                pbm = PopulationBalanceModel(cMin=1e-10, cMax=10 ** rng.uniform(-8.5, -7), bins=bins)
                target = {'bulk': cfg[0], 'disl': cfg[0], 'gb': cfg[2] / (NA / cfg[6]) ** (2 / 3) / 1e-17, 'edge': cfg[3] / (NA / cfg[6]) ** (1 / 3) / 1e-9, 'corner': cfg[4]}[site]
                dens = rng.choice([0.0, 1e-3, 0.3, 1.0, 3.0]) * target / bins
                x = dens * np.array([rng.choice([0.0, rng.random(), 1.0]) for _ in range(bins)])
                precs.append(prec); pbms.append(pbm); xs.append(x); descs.append(d)
            p = 0 if force else rng.randrange(nph)
            parents = [] if force else sorted(set(rng.randrange(nph) for _ in range(rng.choice([0, 0, 0, 1, 2]))))
            for q in range(nph):
                precs[q].parentPhases = list(parents) if q == p else []
            slf = NS(precipitateParameters=precs, PBM=pbms, phases=['P%d' % q for q in range(nph)], matrixParameters=matrix)
            sinfo.update(sites=[d['site'] for d in descs], p=p, parents=parents, cfg=cfg, x=[x.tolist() for x in xs], gbk=[d['k'] for d in descs])
            with np.errstate(all='ignore'):
                got = float(PrecipitateModel._calcNucleationSites(slf, 0.0, xs, p))
            case = dict(kind='sites', sites=[d['site'] for d in descs], p=p, parents=parents, cfg=cfg, x=[x.tolist() for x in xs],
                        r=[pb.PSDsize.tolist() for pb in pbms], gbRemoval=[d['b'] for d in descs], gbk=[d['k'] for d in descs])
            res.case(('sites', tuple(case['sites']), p, tuple(parents), cfg[6], tuple(float(x.sum()) for x in xs)), any(x.sum() > 0 for x in xs))
            res.count('sites:' + descs[p]['site'] + (':parents' if parents else ''))
            res.count('sites:' + ('clamped-to-0' if got == 0 else 'positive'))
            ph = []
            for q in range(nph):
                with np.errstate(all='ignore'):
                    gk = fl(precs[q].nucleation.GBk)
                ph.append('%s %s %s %s %s %s' % (descs[q]['site'], enc_list(xs[q]), enc_list(pbms[q].PSDsize), f2b(descs[q]['b']), f2b(gk), f2b(precs[q].volume.Vm)))
            n0 = max(abs(v) for v in cfg[:5])

            def cb(t, case=case, got=got, scale=cfg):
                m = t.flt()
                site = case['sites'][case['p']]
                n0 = {'bulk': scale[0], 'disl': scale[0], 'gb': scale[2], 'edge': scale[3], 'corner': scale[4]}[site]
                if not close(got, m, 1e-9, n0 + max(got, m)):
                    res.disagree('_calcNucleationSites', case, got, m)
            batch.add('sites.calc %s %d %s %s %s' % (' '.join(f2b(v) for v in cfg), nph, ' '.join(ph), vlib.enc_ilist(parents), descs[p]['site']), cb)
            # ---- direct oracle on the real function, against an independent scalar reference
            site_p = descs[p]['site']
            if not (got >= 0 and math.isfinite(got)):
                res.violate('sites-negative', 'number of available nucleation sites negative or not finite', case, got, '>= 0')

            def call(xv):
                with np.errstate(all='ignore'):
                    return float(PrecipitateModel._calcNucleationSites(slf, 0.0, xv, p))
            kinds = [site_kind(d['site']) for d in descs]
            n0, occ, par = ref_sites(cfg, descs, pbms, xs, precs, p, parents)
            want = max(par + n0 - occ, 0.0)
            mag = abs(n0) + abs(occ) + abs(par)
            if not close(got, want, 1e-9, mag):
                res.violate('sites-not-N0-minus-occupancy:' + site_p, 'available sites != max(parent sites + N0 - sites occupied by the precipitates of the same site type, 0)',
                            dict(case, N0=n0, occupied=occ, parent_sites=par), got, want)
            zero = [np.zeros(len(x)) for x in xs]
            if not parents:
                e = call(zero)
                if not close(e, n0, 1e-12):
                    res.violate('sites-empty-not-N0:' + site_p, 'no precipitates: available sites != N0 of the site type', dict(case, x=[z.tolist() for z in zero]), e, n0)
                # strictly fewer sites when the phase's own population grows (while sites are left)
                xs2 = [x.copy() for x in xs]
                add = 0.05 * n0 / max(occ_unit(descs[p], pbms[p], cfg, NA), 1e-300)      # 5 % of N0 more sites occupied
                xs2[p] = xs2[p] + add
                g2 = call(xs2)
                if got > 0 and not (g2 < got):
                    res.violate('sites-not-decreasing-with-own-population:' + site_p, 'available sites do not decrease when precipitates of the nucleating phase occupy sites',
                                dict(case, x2=[x.tolist() for x in xs2]), [got, g2], 'strictly decreasing while sites are left')
                if g2 > got * (1 + 1e-12):
                    res.violate('sites-increase-with-population', 'available sites increase when the occupying populations grow', dict(case, x2=[x.tolist() for x in xs2]), [got, g2], 'non-increasing')
                # oversubscribed: more occupied sites than N0 -> exactly 0
                xs3 = [x.copy() for x in xs]
                xs3[p] = xs3[p] + 2.5 * n0 / max(occ_unit(descs[p], pbms[p], cfg, NA), 1e-300)
                g3 = call(xs3)
                if g3 != 0:
                    res.violate('sites-not-zero-when-oversubscribed:' + site_p, 'precipitates of the site type occupy more than N0 sites but sites are still available',
                                dict(case, x3=[x.tolist() for x in xs3]), g3, 0)
                res.count('sites-oracle:own-population:' + site_p)
            # populations of OTHER site types do not matter
            others = [q for q in range(nph) if kinds[q] != kinds[p] and q not in parents]
            if others:
                xs4 = [x.copy() for x in xs]
                for q in others:
                    xs4[q] = xs4[q] * rng.choice([0.0, 3.0]) + rng.random() * (n0 if n0 > 0 else 1.0) / len(xs4[q])
                g4 = call(xs4)
                if not close(g4, got, 1e-12):
                    res.violate('sites-affected-by-other-site-type:' + site_p, 'available sites change with the population of a phase nucleating on a different site type',
                                dict(case, other_phases=others, x4=[x.tolist() for x in xs4]), [got, g4], 'equal')
                res.count('sites-oracle:other-types:' + site_p + '<-' + '+'.join(sorted(set(descs[q]['site'] for q in others))))


def site_kind(site):
    """bulk and dislocation sites share one branch of _calcNucleationSites (DislocationDescription subclasses
    BulkDescription and that test comes first) - documented observation, kept as the code's behaviour"""
    return 'bulk' if site in ('bulk', 'disl') else site


def occ_unit(d, pbm, cfg, NA):
    """sites occupied by ONE precipitate per size class of this phase, summed over its classes (independent formulas)"""
    r = np.asarray(pbm.PSDsize, dtype=float)
    kind = site_kind(d['site'])
    if kind in ('bulk', 'corner'):
        return float(len(r))
    if kind == 'gb':
        return float(sum(math.pi * (1 - d['k'] ** 2) * ri ** 2 for ri in r) * (NA / cfg[6]) ** (2 / 3))
    return float(sum(math.sqrt(1 - d['k'] ** 2) * ri for ri in r) * (NA / cfg[6]) ** (1 / 3))


def ref_sites(cfg, descs, pbms, xs, precs, p, parents):
    """independent scalar reference: (N0, occupied, parent sites) for phase p.  Occupancy per site kind:
    bulk/dislocation and corners: one site per precipitate; boundaries: pi(1-k^2) r^2 of boundary area per precipitate in
    atomic areas (N_A/Vm)^(2/3); edges: sqrt(1-k^2) r of edge length per precipitate in atomic lengths (N_A/Vm)^(1/3)"""
    NA, Vm = cfg[5], cfg[6]
    kind = site_kind(descs[p]['site'])
    n0 = {'bulk': cfg[0], 'gb': cfg[2], 'edge': cfg[3], 'corner': cfg[4]}[kind]
    occ = 0.0
    for q, d in enumerate(descs):
        if site_kind(d['site']) != kind:
            continue
        r = [float(v) for v in pbms[q].PSDsize]
        n = [float(v) for v in xs[q]]
        if kind in ('bulk', 'corner'):
            occ += sum(n)
        elif kind == 'gb':
            occ += math.pi * (1 - d['k'] ** 2) * sum(ni * ri * ri for ni, ri in zip(n, r)) * (NA / Vm) ** (2 / 3)
        else:
            occ += math.sqrt(1 - d['k'] ** 2) * sum(ni * ri for ni, ri in zip(n, r)) * (NA / Vm) ** (1 / 3)
    par = 0.0
    for q in parents:
        r = [float(v) for v in pbms[q].PSDsize]
        par += 4 * math.pi * sum(ni * ri * ri for ni, ri in zip(xs[q], r)) * (NA / float(precs[q].volume.Vm)) ** (2 / 3)
    return n0, occ, par


# ---------------------------------------------------------------- a real Al-Zr run with a temperature jump
_THERM = {}


def alzr_therm():
    vlib.use_repo()
    if 'alzr' not in _THERM:
        with warnings.catch_warnings():
            warnings.simplefilter('ignore')
            from kawin.tests.datasets import ALZR_TDB
            from kawin.thermo import BinaryThermodynamics
            th = BinaryThermodynamics(ALZR_TDB, ['AL', 'ZR'], ['FCC_A1', 'AL3ZR'], drivingForceMethod='tangent')
        th.setDFSamplingDensity(2000); th.setEQSamplingDensity(500)
        th.setDiffusivity(lambda T: 0.0768 * np.exp(-242000 / (8.314 * T)), 'FCC_A1')
        _THERM['alzr'] = th
    return _THERM['alzr']


def run_case(cfg):
    """short binary Al-Zr KWN run: hold at 723 K, jump to Thigh (above the solvus), stop `after` slices later"""
    vlib.use_repo()
    with warnings.catch_warnings():
        warnings.simplefilter('ignore')
        from kawin.precipitation import PrecipitateModel, VolumeParameter
        from kawin.precipitation import NucleationRate as R
        from kawin.solver import SolverType
    model = PrecipitateModel(phases=['AL3ZR'], elements=['ZR'])
    model.setPBMParameters(cMin=1e-10, cMax=1e-8, bins=75, minBins=50, maxBins=100)
    model.setInitialComposition(cfg['x0'])
    tj = cfg['tjump_h']
    if cfg.get('isothermal'):
        model.setTemperature(cfg['T0'])
    else:
        model.setTemperature([0, tj, tj + 1e-4, 10], [cfg['T0'], cfg['T0'], cfg['Thigh'], cfg['Thigh']])
    model.setInterfacialEnergy(cfg['gamma'])
    a = 0.405e-9
    model.setVolumeAlpha(a ** 3, VolumeParameter.ATOMIC_VOLUME, 4)
    model.setVolumeBeta(a ** 3, VolumeParameter.ATOMIC_VOLUME, 4)
    model.setNucleationDensity(grainSize=1, dislocationDensity=1e15)
    if cfg['site'] in ('gb', 'edge', 'corner'):
        model.setGrainBoundaryEnergy(2 * cfg['k'] * cfg['gamma'])
    model.setNucleationSite(SITE_NAMES[cfg['site']])
    model.setBetaBinary(cfg['beta'])
    model.setThermodynamics(alzr_therm())
    model.setConstraints(dtScale=cfg['dtScale'])
    log = {'sites': None, 'tau': None}
    rec = []
    orig_sites = model._calcNucleationSites

    def sites_w(t, x, p):
        v = orig_sites(t, x, p)
        log['sites'] = float(v)
        return v
    model._calcNucleationSites = sites_w
    orig_tau = R.incubationTimeNonIsothermal

    def tau_w(*a, **k):
        v = orig_tau(*a, **k)
        log['tau'] = float(v)
        return v

    class Obs:
        after = 0

        def updateCoupledModel(self, m):
            rec.append((log['sites'], log['tau']))
            if cfg.get('isothermal'):
                if m.pData.n >= cfg['steps']:
                    raise _Stop()
            elif m.pData.temperature[m.pData.n] > cfg['T0'] + 1:
                self.after += 1
                if self.after >= cfg['after']:
                    raise _Stop()
    model.addCouplingModel(Obs())
    R.incubationTimeNonIsothermal = tau_w
    try:
        with np.errstate(all='ignore'), warnings.catch_warnings():
            warnings.simplefilter('ignore')
            try:
                model.solve(3600 * 5, solverType=SolverType.EXPLICITEULER if cfg['solver'] == 'euler' else SolverType.RK4, verbose=False)
            except _Stop:
                pass
    finally:
        R.incubationTimeNonIsothermal = orig_tau
    return model, rec


def check_run(ctx, res, batch, R, cfgs):
    kB, NA = float(R.BOLTZMANN_CONSTANT), float(R.AVOGADROS_NUMBER)
    for cfg in cfgs:
        with Guard(res, cfg['site'], dict(cfg, kind='run'), where='Al-Zr run with a temperature jump'):
            model, rec = run_case(cfg)
            d = model.pData
            prec = model.precipitateParameters[0]
            with np.errstate(all='ignore'):
                a, b, c = fl(prec.nucleation.areaFactor), fl(prec.nucleation.gbRemoval), fl(prec.nucleation.volumeFactor)
            isGB = bool(prec.nucleation.description.isGrainBoundaryNucleation)
            res.traces += 1
            res.count('run:%s:%s:beta%d' % (cfg['site'], cfg['solver'], cfg['beta']))
            res.extra.setdefault('runs', []).append(dict(cfg, slices=int(d.n + 1), slices_with_negative_dG=int(np.sum(d.drivingForce[:, 0] < 0))))
            nneg = 0
            for i in range(1, d.n + 1):
                dG = float(d.drivingForce[i, 0])
                sl = [float(v[i, 0]) for v in (d.Rcrit, d.Gcrit, d.impingement, d.nucRate, d.Rnuc)]
                case = dict(cfg, kind='run', slice=i, time=float(d.time[i]), T=float(d.temperature[i]), dG=dG, slice_values=sl)
                res.case(('run', tuple(sorted((k, str(v)) for k, v in cfg.items())), i), dG < 0 or sl[3] > 0)
                res.count('run-slice:' + ('dG<0' if dG < 0 else 'dG>=0'))
                # ---- direct oracle: the rate is zero for non-positive driving force, in the run
                if dG <= 0:
                    nneg += 1
                    if sl[3] != 0 or sl[4] != 0:
                        res.violate('run-rate-nonzero-at-negative-driving-force',
                                    'recorded slice has nucleation rate %.3g and nucleation radius %.3g with driving force %.3g (values of the previous slice kept by `continue` in _calcNucleationRate)' % (sl[3], sl[4], dG),
                                    case, [sl[3], sl[4]], [0, 0])
                    if sl[0] != 0 or sl[1] != 0 or sl[2] != 0:
                        res.violate('run-barrier-nonzero-at-negative-driving-force', 'recorded Rcrit/Gcrit/impingement not zero with negative driving force', case, sl[:3], [0, 0, 0])
                elif cfg['solver'] == 'euler' and (sl[0] < prec.Rmin or sl[1] < 0 or sl[3] < 0 or not all(math.isfinite(v) for v in sl)):
                    res.violate('run-slice-invalid', 'recorded Rcrit < Rmin, negative barrier/rate or non-finite value at positive driving force', case, sl, 'Rcrit >= Rmin, Gcrit >= 0, rate >= 0')
                # ---- trace refinement of the per-phase step (Euler glue records the slice computed by the last call)
                if cfg['solver'] != 'euler':
                    continue
                prev = [float(v[i - 1, 0]) for v in (d.Rcrit, d.Gcrit, d.impingement, d.nucRate, d.Rnuc)]
                dt = float(d.time[i]) if i - 1 == 0 else float(d.time[i - 1] - d.time[i - 2])
                sites, tau = rec[i - 1]
                tauNI = None if model.temperatureParameters._isIsothermal else tau
                if sites is None:
                    sites = 0.0
                args = [1.0, prec.gamma, a, b, c, prec.nucleation.gbEnergy, prec.Rmin, kB, NA, prec.volume.Vm, float(d.temperature[i]), model.matrixParameters.theta,
                        float(d.time[i]), dt, model.constraints.minNucleateDensity, sites]

                def cb(t, case=case, sl=sl):
                    fixed = t.flts(); stale = t.flts()
                    sc = [0, 0, 0, 0, 0]
                    if not all(close(x, y, 1e-8) for x, y in zip(sl, fixed)):
                        res.disagree('_calcNucleationRate step (recorded slice vs model of the repaired code)', case, sl, fixed)
                batch.add('step.nuc %s %s %s %s %s %s' % (vlib.enc_bool(isGB), ' '.join(f2b(v) for v in args), enc_opt(tauNI if tauNI is None or math.isfinite(tauNI) else 0.0),
                                                        enc_list(prev), f2b(dG), f2b(sl[2])), cb)
            res.count('run:slices-with-negative-dG', nneg)


def run_configs(ctx, quick_only=False):
    base = dict(x0=4e-3, T0=723.15, Thigh=1500.0, gamma=0.1, tjump_h=0.05, dtScale=0.2, site='disl', k=0.0, beta=1, solver='euler', after=3)
    cfgs = [base]
    if ctx.thorough and not quick_only:
        cfgs = [dict(base, after=8),
                dict(base, site='bulk', beta=2, after=4),
                dict(base, site='gb', k=0.5, after=4),
                dict(base, site='edge', k=0.5, beta=2, tjump_h=0.03, after=3),
                dict(base, solver='rk4', after=3),
                dict(base, isothermal=True, steps=60),
                dict(base, Thigh=1100.0, tjump_h=0.04, after=4)]
    else:
        v = ctx.rng.choice([dict(), dict(beta=2), dict(site='bulk'), dict(tjump_h=0.045)])
        cfgs = [dict(base, **v)]
    return cfgs


def corr(ctx, oracle_only=False, scale=1):
    N, R = _kawin()
    res = Result()
    res.rule = ('random energy ratios up to (and beyond) each site limit incl. 1-1e-14 of it; random precipitate parameters x driving force over 20 decades (negative, zero, positive); '
                'NucleationRate chain on random arrays with zero radii/barriers, scalar and array calls; random incubation histories; random setter/getter op sequences '
                '(direct and through PrecipitateParameters, ratios exactly at a limit); random multi-phase populations; real Al-Zr run(s) with a temperature jump; '
                'non-trivial = k > 0 / dG > 0 / non-zero radius and barrier / sequence mixing assignments and reads / populated phases; distinct = parameter tuple')
    res.monitored = list(MONITORED)
    batch = Batch()
    q = lambda a, b: int(ctx.n(a, b) * scale)
    import time
    timing = {}

    del Guard.harness_errors[:]

    def timed(name, f, *a):
        t = time.time()
        with Guard(res, name, {'kind': 'section', 'section': name}, where='section ' + name):
            f(*a)
        timing[name] = round(time.time() - t, 2)
    timed('geometry', check_geometry, ctx, res, batch, N, q(120, 4000))
    timed('grid', check_grid, ctx, res, N, q(2000, 200000))
    timed('barrier', check_barrier, ctx, res, batch, N, R, q(60, 3000), 8)
    timed('chain', check_chain, ctx, res, batch, N, R, q(40, 2000), 6)
    timed('tauni', check_tauni, ctx, res, batch, R, q(150, 6000))
    timed('ops', check_ops, ctx, res, batch, N, q(400, 20000))
    timed('sites', check_sites, ctx, res, batch, N, R, q(200, 4000))
    if not os.environ.get('VERIF_C14_NORUN'):
        timed('run', check_run, ctx, res, batch, R, run_configs(ctx))
    # the COMPOSED step (KWNFull.eulerStep, theorem depEval_nuc): the nucleation stage inside real runs (regenerated barrier, Zeldovich,
    # impingement, incubation, rate, radius and the site competition) must reproduce every recorded row given the captured answers
    if True:      # in the oracle-only pass (search, replay) the scenarios run with their direct oracles, without the model
        import random as _random
        site = _random.Random(ctx.seed).choice(['grain boundaries', 'grain edges', 'grain corners', 'bulk', 'dislocations'])
        timed('composed-step', kwnfull.refine_scenarios, ctx, res, PROP, [('alzr-site:' + site, int(ctx.n(120, 500) * scale) or 1), ('alzr', int(ctx.n(150, 800) * scale) or 1)], None, ('nuc',), not oracle_only)
    timed('driver', batch.run, res, ctx.driver_ok and not oracle_only)
    res.extra['section_seconds'] = timing
    res.extra['driver_lines'] = len(batch.lines)
    if Guard.harness_errors:
        res.extra['harness_errors'] = [h[-600:] for h in Guard.harness_errors[:5]]
        if not res.violations:
            raise RuntimeError('%d harness error(s) and no violation found; first:\n%s' % (len(Guard.harness_errors), Guard.harness_errors[0]))
    return res


def search(ctx, broken):
    """something no longer checks: look for a failing input with the oracle alone on a larger sample"""
    return corr(ctx, oracle_only=True, scale=4)


def replay(ctx, entry):
    """re-run the oracle with the seed/tier of the recorded run and report whether the same key fails again"""
    v = entry.get('violation') or {}
    key = v.get('key')
    c = vlib.Ctx(PROP, 'quick' if entry.get('tier') != 'thorough' else 'thorough', int(entry.get('seed', 0)))
    c.driver_ok = False
    case = v.get('case') or {}
    if case.get('kind') == 'geo' and 'k' in case:
        N, R = _kawin()
        d = classes(N)[case['site']]()
        ks = [case['k']] + ([case['k2']] if 'k2' in case else [])
        with np.errstate(all='ignore'):
            vals = [[fl(getattr(d, m)(k)) for m in PUBLIC] for k in ks]
        print('   site %s  k=%s  [gbRemoval, area, volume, areaRemoval] = %s' % (case['site'], ks, vals))
        rem, area, vol, _ = vals[0]
        ok = close(area - 2 * ks[0] * rem, 3 * vol, 1e-9, GEO_ABS) and min(rem, area, vol) >= -1e-11
        if len(vals) > 1:
            ok = ok and vals[1][2] <= vol + 1e-12
        return ok
    r = corr(c, oracle_only=True, scale=4 if entry.get('searched') or entry.get('broken') else 1)
    hits = [x for x in r.violations if key is None or x['key'] == key]
    for x in hits[:3]:
        print('  ', x['key'], x['what'], x['observed'], x['required'])
    return not hits
