"""C14 — classical nucleation theory for every site type.

regenerate(): traces the real kawin formulas (Clemm–Fisher factors, NucleationBarrierParameters.Rcrit/Gcrit,
the scalar formulas of NucleationRate.py) with the concolic tracer and probes the cache-invalidation table of
NucleationBarrierParameters -> lean/KawinV/Gen/C14Nuc.lean.
corr(): translator validation (generated defs on Float vs the Python functions called normally, scalar and
array calls), guard wrappers, setter op sequences vs the state-machine model, _calcNucleationSites vs model,
a short real Al-Zr run with a temperature jump (trace refinement of the per-phase nucleation step), and the
direct oracle of every C14 clause on the real functions.
"""
import math, os, sys, types, warnings
import numpy as np
import vlib
from vlib import Result, enc_list, f2b, Toks, close

PROP = 'C14'
META = {
    'level_text': 'Lean 4 theorems about definitions REGENERATED from the kawin sources on every run (concolic trace of the real Clemm-Fisher factor methods, NucleationBarrierParameters.Rcrit/Gcrit and the scalar formulas of NucleationRate.py) and about a hand model of the guards, the cached-factor state machine, _calcNucleationSites and the per-phase step of _calcNucleationRate: area - 2k*gbRemoval = 3*volume for boundary/edge/corner as ring identities for every k and every interpretation of the transcendental atoms; hence Rcrit = 2*gamma/dG and Gcrit = volume/(4pi/3) * spherical barrier; boundary factors closed form, sign and strict monotonicity on [0,1]; edge/corner sphere values at k=0 over the reals (Mathlib arcsin/arccos); Rcrit >= Rmin, Gcrit >= 0, zero barrier and zero rate for dG <= 0 (also on the copied slice of a run, after the repair of D-C14-stale); Zeldovich/beta/tau strictly positive with non-zero denominators under the code guards; incubation factor in (0,1] and monotone in t; steady-state rate monotone in dG; sites >= 0 and antitone in occupying populations; cached factors = fresh computation after ANY sequence of gamma/gbEnergy/description assignments (induction over the op list, invalidation table regenerated from the real class). Generated definitions are validated numerically against the Python functions on every run; the hand models are tied by differential correspondence (op sequences, random populations, a real Al-Zr run).',
    'level_note': 'Monitored only (oracle, fine grid up to each limit): sign and monotonicity of the edge and corner factors on (0,k_max). Trusted: Lean kernel + Mathlib (propext, Classical.choice, Quot.sound); the tracer (tools/py2lean/sym.py) - its output is re-validated numerically on a few hundred random points per definition per run; exact real/field arithmetic instead of IEEE doubles (NaN/inf outside the statement); thermodynamic inputs (driving force, diffusivity, impingement factor) are inputs of the model, not modelled. Gcrit >= 0 and monotonicity for grain-boundary site types hold only while dG*R <= 3*gamma (finding gcrit-negative-gb-rmin).',
    'technique': 'Lean 4 proof over ordered fields / reals about source-regenerated definitions + translator validation + model/implementation differential correspondence + run-trace refinement',
    'design_ref': 'DESIGN.md section 6, C14',
}
LEAN_MODULES = ['KawinV.Props.C14']
MONITORED = [
    'edge factors: gbRemoval, areaFactor, volumeFactor >= 0 and volumeFactor strictly decreasing on (0, sqrt(3)/2) (fine grid up to the limit)',
    'corner factors: gbRemoval, areaFactor, volumeFactor >= 0 and volumeFactor strictly decreasing on (0, sqrt(2/3)) (fine grid up to the limit)',
]
ASSUMPTIONS = [
    'valid parameters: gamma > 0, T > 0, Vm > 0, lattice parameter > 0, theta > 0, diffusivities > 0, 0 < x_alpha < 1, x_beta != x_alpha, Rmin > 0, time > 0',
    'exact-field / real theorems vs IEEE doubles: generated definitions compared with rtol 1e-9 (cancellation-prone factors near k_max with the magnitude of the cancelling terms as scale)',
    'NaN / inf inputs are outside the statement',
]
TRUSTED = [
    'tools/py2lean/sym.py concolic tracer (output validated numerically against the Python functions on every run)',
    'Mathlib Real.sqrt/exp/arcsin/arccos/pi as the interpretation of the transcendental atoms in the real-number theorems',
]

GEN_FILE = os.path.join(vlib.LEAN, 'KawinV', 'Gen', 'C14Nuc.lean')
SITES = ['bulk', 'disl', 'gb', 'edge', 'corner']
SITE_NAMES = {'bulk': 'bulk', 'disl': 'dislocations', 'gb': 'grain boundaries', 'edge': 'grain edges', 'corner': 'grain corners'}
CACHES = [('gbk', '_GBk', 'GBk'), ('area', '_areaFactor', 'areaFactor'), ('vol', '_volumeFactor', 'volumeFactor'),
          ('rem', '_gbRemoval', 'gbRemoval'), ('arem', '_areaRemoval', 'areaRemoval')]
FACTORS = ['_gbRemoval', '_areaFactor', '_volumeFactor', '_areaRemoval']


def _kawin():
    vlib.use_repo()
    with warnings.catch_warnings():
        warnings.simplefilter('ignore')
        from kawin.precipitation.parameters import Nucleation as N
        from kawin.precipitation import NucleationRate as R
    return N, R


# =====================================================================================================
# regeneration
# =====================================================================================================
def _sym():
    p = os.path.join(vlib.VERIF, 'tools', 'py2lean')
    if p not in sys.path:
        sys.path.insert(0, p)
    import sym
    return sym


def _vars_of(node, acc=None, seen=None):
    acc = set() if acc is None else acc
    seen = set() if seen is None else seen
    if node.id in seen:
        return acc
    seen.add(node.id)
    if node.op == 'var':
        acc.add(node.args[0])
    for a in node.args:
        if hasattr(a, 'op'):
            _vars_of(a, acc, seen)
    return acc


def regenerate(ctx):
    sym = _sym()
    from sym import Sym, Node, emit_def
    N, R = _kawin()
    NS = types.SimpleNamespace

    class NPProxy:
        """stands in for the module-level `np` of the traced modules: π stays an atom and np.zeros gives an
        object array, so `values[indices] = …` keeps the traced expressions"""
        def __init__(self):
            self.pi = Sym.atom('pi', math.pi)

        def __getattr__(self, n):
            return getattr(np, n)

        def zeros(self, shape, *a, **k):
            arr = np.empty(shape, dtype=object)
            arr[...] = Sym.const(0)
            return arr

    def V(name, v):
        return Sym.var(name, v)

    def arr(name, v):
        return np.array([Sym.var(name, v)], dtype=object)

    def item(x):
        x = np.asarray(x, dtype=object)
        assert x.size == 1
        return Sym.const(x.reshape(-1)[0])

    def cut(node, mapping):
        memo = {}

        def go(nd):
            if nd.id in mapping:
                return Node('var', (mapping[nd.id],))
            if nd.id in memo:
                return memo[nd.id]
            r = Node(nd.op, tuple(go(a) if isinstance(a, Node) else a for a in nd.args))
            memo[nd.id] = r
            return r
        return go(node)

    out = []

    def emit(name, params, s, doc, unused=()):
        used = _vars_of(s.node)
        missing = set(params) - used - set(unused)
        extra = used - set(params)
        if missing or extra:
            raise RuntimeError('trace of %s: parameters lost %s / unexpected %s' % (name, sorted(missing), sorted(extra)))
        out.append(emit_def(name, params, s, doc=doc)[0])

    def path():
        p = [(op, r) for (op, _, _, r) in sym.PATH]
        del sym.PATH[:]
        return p

    saved = (N.np, R.np, R.BOLTZMANN_CONSTANT, R.AVOGADROS_NUMBER)
    px = NPProxy()
    try:
        N.np = px
        R.np = px
        R.BOLTZMANN_CONSTANT = V('kB', 1.380649e-23)
        R.AVOGADROS_NUMBER = V('NA', 6.022e23)
        del sym.PATH[:]
        # ---------------------------------------------------------------- geometric factors
        out.append('/-! ### geometric factors (kawin/precipitation/parameters/Nucleation.py) -/\n\n')
        classes = [('bulk', N.BulkDescription), ('disl', N.DislocationDescription), ('gb', N.GrainBoundaryDescription),
                   ('edge', N.GrainEdgeDescription), ('corner', N.GrainCornerDescription)]
        for nm, cls in classes:
            d = cls()
            for meth in FACTORS:
                k = arr('k', 0.3)
                o = item(getattr(d, meth)(k))
                emit(nm + meth, ['k'], o, '%s.%s' % (cls.__name__, meth), unused=['k'] if nm in ('bulk', 'disl') else ())
        g = N.NucleationDescriptionBase().gbRatio(V('gbE', 0.3), V('gamma', 0.2))
        emit('gbRatio', ['gbE', 'gamma'], g, 'NucleationDescriptionBase.gbRatio')
        # ---------------------------------------------------------------- barrier of NucleationBarrierParameters
        out.append('/-! ### NucleationBarrierParameters.Rcrit / Gcrit (cached factors a = areaFactor, b = gbRemoval, c = volumeFactor) -/\n\n')
        nbp = N.NucleationBarrierParameters('grain boundaries', gamma=V('gamma', 0.2), gbEnergy=V('gbE', 0.3))
        nbp._areaFactor = V('a', 6.0); nbp._volumeFactor = V('c', 1.3); nbp._gbRemoval = V('b', 2.3)
        rc = nbp.Rcrit(V('dG', 1e8))
        gc = nbp.Gcrit(V('dG', 1e8), V('R', 3e-9))
        emit('nbp_Rcrit', ['a', 'b', 'c', 'gamma', 'gbE', 'dG'], rc, 'NucleationBarrierParameters.Rcrit')
        emit('nbp_Gcrit', ['a', 'b', 'c', 'gamma', 'gbE', 'dG', 'R'], gc, 'NucleationBarrierParameters.Gcrit')
        path()
        # ---------------------------------------------------------------- NucleationRate.nucleationBarrier
        out.append('/-! ### NucleationRate.py -/\n\n')

        def prec(kind, Rmin):
            p = NS()
            p.Rmin = Rmin
            p.gamma = V('gamma', 0.2)
            p.shapeFactor = NS(description=NS(thermoFactor=lambda ar: V('f', 1.2)))
            p.nucleation = nbp if kind == 'gb' else N.NucleationBarrierParameters('bulk', gamma=p.gamma)
            p.volume = NS(Vm=V('Vm', 1e-5))
            p.phase = 'X'
            return p
        got = {}
        for kind in ('bulk', 'gb'):
            for tag, Rmin in (('A', 3e-10), ('B', V('Rmin', 1.0))):
                Rc, Gc = R.nucleationBarrier(arr('dG', 1e8), prec(kind, Rmin))
                Rc, Gc = item(Rc), item(Gc)
                pc = path()
                want = [('gt', True), ('ge', tag == 'A')]
                if pc != want:
                    raise RuntimeError('nucleationBarrier %s/%s: guards changed: %s (expected dG > 0, amax of proposal and Rmin)' % (kind, tag, pc))
                got[kind, tag] = (Rc, Sym(cut(Gc.node, {Rc.node.id: 'R'}), Gc.val))
        if got['bulk', 'A'][1].node is not got['bulk', 'B'][1].node:
            raise RuntimeError('nucleationBarrier (bulk): Gcrit is not the same function of the clamped Rcrit on both paths')
        if got['gb', 'A'][0].node is not rc.node or got['gb', 'A'][1].node is not gc.node or got['gb', 'B'][1].node is not gc.node:
            raise RuntimeError('nucleationBarrier (grain boundary branch) no longer calls nucleation.Rcrit / nucleation.Gcrit(dG, clamped Rcrit)')
        if _vars_of(got['bulk', 'B'][0].node) != {'Rmin'} or _vars_of(got['gb', 'B'][0].node) != {'Rmin'}:
            raise RuntimeError('nucleationBarrier: the clamped radius is not Rmin')
        emit('nb_bulk_Rcrit', ['f', 'gamma', 'dG'], got['bulk', 'A'][0],
             'nucleationBarrier, bulk/dislocation branch: RcritProposal (guards: dG > 0; Rcrit = amax(proposal, Rmin))')
        emit('nb_bulk_Gcrit', ['gamma', 'R'], got['bulk', 'A'][1],
             'nucleationBarrier, bulk/dislocation branch: Gcrit as a function of the clamped Rcrit; the grain-boundary branch is nbp_Rcrit / nbp_Gcrit (checked at generation)')
        # ---------------------------------------------------------------- zeldovich, beta, tau, rate, radius
        p = prec('bulk', 3e-10)
        p.nucleation = NS(volumeFactor=V('c', 1.3), areaFactor=V('a', 6.0))
        Z = item(R.zeldovich(arr('T', 700.0), arr('R', 3e-9), p))
        if path() != [('ne', True)]:
            raise RuntimeError('zeldovich: guard changed (expected Rcrit != 0)')
        emit('zeldovich', ['kB', 'NA', 'c', 'Vm', 'gamma', 'T', 'R'], Z, 'zeldovich (guard: Rcrit != 0, else 0)')
        therm = NS(getTracerDiffusivity=lambda x, T, removeCache=False: np.array([[V('D0', 1e-20), V('D1', 2e-20)]], dtype=object),
                   impingementFactor=lambda x, T, precPhase=None, removeCache=False, searchDir=None: V('imp', 1e-20))
        matrix = NS(volume=NS(a=V('a0', 4e-10)), theta=V('theta', 2.0))
        b1 = item(R.betaBinary1(therm, arr('x', 0.01), arr('T', 700.0), arr('R', 3e-9), matrix, p))
        b2 = item(R.betaBinary2(therm, arr('x', 0.01), arr('T', 700.0), arr('R', 3e-9), matrix, p, xEqAlpha=V('xa', 0.001), xEqBeta=V('xb', 0.25)))
        bm = item(R.betaMulti(therm, np.array([[V('x1', 0.01), V('x2', 0.02)]], dtype=object), arr('T', 700.0), arr('R', 3e-9), matrix, p))
        if path() != [('ne', True)] * 3:
            raise RuntimeError('beta*: guard changed (expected Rcrit != 0)')
        emit('betaBinary1', ['a', 'a0', 'x', 'D1', 'R'], b1, 'betaBinary1 (guard: Rcrit != 0, else 0)')
        emit('betaBinary2', ['a', 'a0', 'xa', 'xb', 'D0', 'D1', 'R'], b2, 'betaBinary2 (guard: Rcrit != 0, else 0)')
        emit('betaMulti', ['a', 'a0', 'imp', 'R'], bm, 'betaMulti (guard: Rcrit != 0, else 0); imp = therm.impingementFactor')
        tau = item(R.incubationTime(arr('beta', 0.05), arr('Z', 0.03), matrix))
        if path() != [('ne', True)]:
            raise RuntimeError('incubationTime: guard changed (expected Z != 0)')
        emit('incubationTime', ['theta', 'beta', 'Z'], tau, 'incubationTime (guard: Z != 0, else 0)')
        tauS = arr('tau', 100.0)
        nr = item(R.nucleationRate(arr('Z', 0.03), arr('beta', 0.05), arr('G', 5e-20), arr('T', 700.0), tauS, time=V('t', 50.0)))
        pc = path()
        if pc[0] != ('ne', True) or len(pc) != 2 or not pc[1][1]:
            raise RuntimeError('nucleationRate: guards changed: %s (expected Gcrit != 0, amin(exp(-tau/t), 1))' % pc)
        incs = [a for a in _find(nr.node, 'exp') if _vars_of(a) == {'tau', 't'}]
        if len(incs) != 1:
            raise RuntimeError('nucleationRate: incubation factor exp(-tau/t) not found in the trace')
        emit('incubationFactor', ['tau', 't'], Sym(incs[0], math.exp(-2.0)), 'nucleationRate: the incubation term before amin(·, 1)')
        emit('nucleationRate_core', ['kB', 'Z', 'beta', 'G', 'T', 'inc'], Sym(cut(nr.node, {incs[0].id: 'inc'}), nr.val),
             'nucleationRate (guard: Gcrit != 0, else 0) with inc = amin(incubationFactor tau t, 1)')
        rn = item(R.nucleationRadius(arr('T', 700.0), arr('R', 3e-9), p))
        emit('nucleationRadius', ['kB', 'gamma', 'T', 'R'], rn, 'nucleationRadius')
    finally:
        N.np, R.np, R.BOLTZMANN_CONSTANT, R.AVOGADROS_NUMBER = saved
        del sym.PATH[:]

    # ---------------------------------------------------------------- invalidation table, probed on the real class
    table = probe_invalidation(N)
    t = ['/-! ### cache invalidation of NucleationBarrierParameters, probed on the real class:\n'
         'fill every cache with a sentinel, assign through each setter, record which caches were cleared -/\n\n',
         'inductive Cache | gbk | area | vol | rem | arem\n  deriving DecidableEq, Repr\n\n',
         'inductive Setter | gamma | gbEnergy | description\n  deriving DecidableEq, Repr\n\n',
         '/-- `clears s c`: assigning through setter `s` resets cache `c` -/\ndef clears : Setter → Cache → Bool\n']
    for s in ('gamma', 'gbEnergy', 'description'):
        for c, _, _ in CACHES:
            t.append('  | .%s, .%s => %s\n' % (s, c, 'true' if table[s, c] else 'false'))
    t.append('\n')
    text = sym.HEADER + '\nnamespace KawinV.Gen.C14\n\n' + ''.join(out) + ''.join(t) + 'end KawinV.Gen.C14\n'
    changed = vlib.write_if_changed(GEN_FILE, text)
    return [os.path.relpath(GEN_FILE, vlib.VERIF)] if changed else []


def _find(node, op, acc=None, seen=None):
    acc = [] if acc is None else acc
    seen = set() if seen is None else seen
    if node.id in seen:
        return acc
    seen.add(node.id)
    if node.op == op:
        acc.append(node)
    for a in node.args:
        if hasattr(a, 'op'):
            _find(a, op, acc, seen)
    return acc


def probe_invalidation(N):
    """which private caches does each public setter clear?  (real object, sentinel values)"""
    table = {}
    for s in ('gamma', 'gbEnergy', 'description'):
        o = N.NucleationBarrierParameters('grain boundaries', gamma=0.3, gbEnergy=0.3)
        for _, attr, _ in CACHES:
            setattr(o, attr, 12345.0)
        if s == 'gamma':
            o.gamma = 0.25
        elif s == 'gbEnergy':
            o.gbEnergy = 0.25
        else:
            o.setNucleationType('grain edges')
        for c, attr, _ in CACHES:
            table[s, c] = getattr(o, attr) is None
    return table
