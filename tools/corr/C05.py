"""C05 — solver time and state contract.

Adversarial user models are plugged into the REAL kawin solver (GenericModel.solve, DESolver used
directly, Coupler of 2-3 models, custom iterator wrappers passed as solverType).  Their step-size
proposals follow scripts mixing 0, negatives, +-inf, NaN, huge/tiny values, ints and NumPy scalars;
stop requests follow schedules.  Every run is (1) replayed through the Lean model
KawinV.Solver.solve on Float (correspondence: accepted times, number of steps, stop flag) and
(2) judged directly against the property (direct oracle on the observed step sequence and on the
structure/shapes of the state seen by every callback).  Nested-state flatten/unflatten (single
model and Coupler) is compared with KawinV.Flatten bit for bit.

Time bookkeeping: every scripted model carries an entry with derivative 1 that starts at t0 (the
clock): it must be bit-identical with the time at every callback, for both iterators and any
doubles (`x + 1.0*dt` and `currTime + dt` are the same IEEE operation) — the time handed to
postProcess is the previous time plus the step the iterator used for the state update (theorems
step_time_bookkeeping, solveX_const, solveX_clock_euler/_rk4 on the loop with the state carried
along, `runX`; the model's clock states are compared through the driver verb sol.runx).

Layout / resize runs: states that are lists mixing Python floats, NumPy scalars, arrays (also
empty), nested lists and 2-D arrays in every order, solved alone and as 2-3 coupled models over 1-3
solve calls, with sub-models that return a state of another length from postProcess at scripted
steps (grow, shrink, at either end, entries appearing/disappearing, several models at once).  Every
entry has its own constant derivative, so the CONTENT every callback must receive is known exactly
(dyadic inputs) and compared, not only the shapes.  The Coupler's size bookkeeping through such a
history is modelled (KawinV.Flatten.Coupler, theorems deliverAll_history,
unflattenC_flattenC_history, unflattenC_history_shapes, stale_sizes_misdeliver) and compared through
the driver verb flat.hist, on real runs and on one Coupler object handed a history of states.

Nested couplers / several couplers alive at once: a Coupler is a GenericModel, so it can be one of the models of another
Coupler.  (1) forests of 1-3 model trees of depth 1-3 over leaf models with differently shaped states, flattenX / unflattenX
(also of another vector of that length) called on them in any interleaving, every leaf entry tagged with its own numbers: the
round trip must give every leaf its own structure, shapes and numbers back; the same operation sequence goes through the model
KawinV.Flatten.runOps (Couplers are objects with an identity, the `_sizeRef` attributes live in a heap: theorems
nested_unflatten_flatten, nested_roundtrip_interleaved, unflattenT_shapes, runOps_roundtrip; the variant with ONE size list
shared by all instances breaks both: shared_sizes_break_nesting, shared_sizes_break_interleaving) through the driver verb
flat.nest, including cases that use the SAME Coupler object twice (where the sizes are shared by construction).  (2) the real
solver on nested topologies: scripted adversarial proposals / stop schedules (entry 'nested': every leaf must see the same
accepted times, the whole time/step contract is judged with the effective proposal = minimum over ALL leaves, a stop request of
any leaf ends the run, every Coupler in the tree records the accepted times) and layout/resize runs (entry 'nested': structure,
shapes and CONTENT of every callback argument of every leaf, step bounds per solve call, preProcess count and setTimeInfo per
leaf), also with an independent Coupler that flattens / unflattens its own state from inside the callbacks of a leaf of the
running one (entry 'coupler+bystander').

Numbers: 'dyadic' cases use few-bit dyadic rationals, on which + - * are exact in doubles: there
model and implementation must agree exactly and the oracle is exact.  'general' cases use random
doubles: time stamps are compared to 4 ulp, and the oracle allows the final time to exceed tf by
one ulp — `c + (tf - c)` can round one ulp above tf; that is IEEE rounding, not a defect of the
loop (the exact-arithmetic theorem is `solve_times_bounds` / `solve_reaches_tf`).
"""
import math
import numpy as np
import vlib
from vlib import Result, enc_list, f2b, Toks, close, ulps

PROP = 'C05'
META = {
    'level_text': 'Lean 4 theorems, by induction over the solve loop with no bound on the number of steps and for EVERY proposal function and stop schedule (proposals are an inductive fin x | +inf | -inf | NaN with Python comparison semantics): accepted times strictly increase, lie in (t0, tf], every step is positive and <= maxFrac*(tf-t0), every step is >= minFrac*(tf-t0) except possibly the last which then equals the remaining time, exact arrival at tf within N steps when N*minFrac >= 1 (termination bound), a stop request ends the run at that step, the run ends only by arrival/stop/fuel; flatten/unflatten round trips and shape preservation for nested states (lists mixing scalars and arrays in every order: unflatten_flatten, unflatten_append) and for the Coupler size bookkeeping THROUGH ANY HISTORY OF RESIZES (sub-models returning states of another length from postProcess: deliverAll_history, unflattenC_flattenC_history, unflattenC_history_shapes; slicing with stale sizes fails: stale_sizes_misdeliver) and for NESTED couplers (a Coupler among the models of a Coupler, any depth; inductive tree type CTree, every Coupler an object with its own size record in a heap): round trip for every tree of distinct Coupler objects whatever was on record before (nested_unflatten_flatten), undisturbed by flattenX calls on any other model trees in between (nested_roundtrip_interleaved) and under ANY interleaving of flattenX/unflattenX operations on a forest of live trees (runOps_roundtrip), every leaf receives its own structure, shapes and block of numbers for any vector the iterator returns (unflattenT_shapes, nested_unflatten_shapes); the variant with one size list shared by all Coupler instances fails on Coupler([Coupler([A,B]),C]) and on two couplers used in turn (shared_sizes_break_nesting, shared_sizes_break_interleaving); time bookkeeping on the loop with the state carried along (runX): the time handed to postProcess is the previous time plus the step the iterator was given (step_time_bookkeeping), and the state of a model with right-hand side c after any run is x0 + c*(final time - t0), for Euler and Runge-Kutta, every proposal function and stop schedule (solveX_const, solveX_clock_euler, solveX_clock_rk4, solveX_clock_at_end). The executable model is tied to kawin/solver/Solver.py and kawin/GenericModel.py by differential correspondence with adversarial user models on every run, and the property predicate is evaluated directly on the real solver\'s observed step sequences and callback arguments.',
    'level_note': 'Trusted: Lean kernel + Mathlib, axioms propext/Classical.choice/Quot.sound; the hand model equals the Python loop only as far as this run compared them; exact-field arithmetic instead of IEEE doubles (a final time one ulp above tf is IEEE rounding of c+(tf-c), outside the theorem and not flagged); proposals that are not numbers (None, arrays) and non-finite t0/tf are outside the statement; the default flattenX (np.hstack) is modelled on its documented domain (scalars and 1-D arrays), higher-rank arrays only through a flattenX override as kawin\'s own DiffusionModel does; minDtFrac = 0 with non-positive proposals never terminates (theorem no_progress_without_min; the property presupposes a positive minimum fraction).',
    'technique': 'Lean 4 proof over ordered fields (loop invariant) + model/implementation differential correspondence + direct oracle on observed runs',
    'design_ref': 'DESIGN.md section 6, C05',
}
LEAN_MODULES = ['KawinV.Props.C05']
MONITORED = ['nested couplers in real solver runs: the time/step contract is proved for every proposal function and stop schedule, so also for minimum-over-all-leaves / any-leaf-stops; that the nested run IS such a run is compared on every run (effective script through sol.runx, all leaves see the same accepted times)',
             'structure/shapes AND content of the state seen by getdXdt/getDt/correctdXdt/postProcess during real runs, also with states resized in postProcess (theorems unflatten_shapes, deliverAll_history are about the model of unflattenX / the Coupler bookkeeping; the call sites are observed)',
             'bit-identity of an f = 1 entry with the time at every callback (theorem solveX_const is over exact fields)']
ASSUMPTIONS = [
    't0 < tf finite, 0 < minDtFrac <= maxDtFrac (with minDtFrac = 0 and non-positive proposals the loop makes no progress: no_progress_without_min)',
    'getDt returns a Python/NumPy real number (float, int, NumPy scalar, inf, NaN)',
    'default flattenX only for scalars and 1-D arrays (as its docstring says); higher-rank arrays with a flattenX override',
    'general doubles: time stamps compared to 4 ulp, final time may exceed tf by one ulp (rounding of c + (tf - c))',
]
TRUSTED = ['NumPy hstack/concatenate/reshape semantics as modelled in KawinV.Flatten (compared on every run)']

CAP = 3000          # hard limit on iterations of a real run (a run that gets there did not terminate in time)
NAN, INF = float('nan'), float('inf')


# ====================================================================== case generation
def dy(rng, lo, hi, den=64):
    """dyadic rational in [lo, hi] with denominator den"""
    return rng.randint(int(lo * den), int(hi * den)) / den


def gen_config(rng, mode):
    if mode == 'dyadic':
        t0 = rng.choice([0.0, 0.0, 1.0, -2.0, dy(rng, -8, 8, 16), 1024.0])
        sim = rng.choice([1.0, 2.0, 0.5, 8.0, dy(rng, 0.125, 16, 8) or 1.0])
        mn = rng.choice([0.5, 0.25, 0.125, 1 / 16, 1 / 64, 1 / 256])
        mx = rng.choice([1.0, 1.0, 0.5, 0.25, 1 / 8, 2.0, 16.0])
    else:
        t0 = rng.choice([0.0, rng.uniform(-10, 10), rng.uniform(0, 1e6), 10 ** rng.uniform(-6, 3), -10 ** rng.uniform(-3, 3)])
        sim = 10 ** rng.uniform(-6, 6)
        mn = rng.choice([0.3, 0.1, 0.01, 0.005, 10 ** rng.uniform(-2.3, -0.3), 1e-8])
        mx = rng.choice([1.0, 1.0, 0.5, 0.3, rng.uniform(0.02, 1.0), 3.0])
    if mx < mn and rng.random() < 0.85:
        mx = mn if rng.random() < 0.3 else min(1.0, mn * rng.choice([2, 4, 16])) if mode == 'dyadic' else max(mn, min(1.0, mn * rng.uniform(1, 20)))
    return t0, sim, mn, mx


def gen_script(rng, mode, span, mn, mx):
    """proposal script + stop schedule"""
    n = rng.choice([1, 1, 2, 3, 5, 8, 13])
    dtmin, dtmax = mn * span, mx * span
    tiny_min = mn < 1 / 400
    style = rng.choice(['adversarial', 'adversarial', 'wild', 'benign', 'constant-bad'])
    if tiny_min:
        style = 'benign'      # 1/minFrac steps would be needed for degenerate proposals
    props = []
    for _ in range(n):
        if style == 'benign':
            v = span * (dy(rng, 0.03, 0.6, 64) if mode == 'dyadic' else rng.uniform(0.03, 0.6))
        elif style == 'constant-bad':
            v = props[0] if props else rng.choice([0.0, -1.0, NAN, -INF, INF, 1e300, 5e-324])
        else:
            r = rng.random()
            if r < 0.45 or style == 'wild' and r < 0.2:
                v = rng.choice([0.0, -0.0, -1.0, -span, NAN, INF, -INF, 1e300, -1e300, 1e-300, 5e-324, 0, 1, -3,
                                dtmin, dtmax, np.float64(0.0), np.float64(NAN), np.float64(INF), np.float32(0.5), np.int64(2)])
            elif r < 0.6:
                v = rng.choice([dtmin, dtmax, dtmin / 2, dtmax * 2, span, span / 2, span / 4 if mode == 'dyadic' else span / 3])
            else:
                v = span * (dy(rng, 0, 1.5, 64) if mode == 'dyadic' else 10 ** rng.uniform(-4, 0.5))
        props.append(v)
    # stop schedule
    r = rng.random()
    if r < 0.55:
        stops = []
    else:
        k = rng.choice([0, 0, 1, 2, 3, 5, 9, 20])
        stops = [False] * k + [True]
        if rng.random() < 0.3:
            stops += [rng.random() < 0.5 for _ in range(3)]
    if tiny_min and not stops and rng.random() < 0.5:
        stops = [False] * rng.randint(0, 30) + [True]
    return props, stops


def gen_state(rng, allow_nd=False):
    """nested state: python floats, NumPy scalars, 1-D arrays (also empty / length 1), N-D if allowed"""
    n = rng.choice([1, 1, 2, 3, 4, 6])
    X = []
    for _ in range(n):
        k = rng.random()
        if k < 0.3:
            X.append(rng.choice([float(rng.randint(-5, 5)), np.float64(rng.uniform(-2, 2))]))
        elif k < 0.75 or not allow_nd:
            m = rng.choice([0, 1, 1, 2, 3, 5, 9])
            X.append(np.array([rng.uniform(-2, 2) for _ in range(m)], float))
        else:
            sh = tuple(rng.choice([1, 2, 3, 4]) for _ in range(rng.choice([2, 2, 3])))
            X.append(np.array([rng.uniform(-2, 2) for _ in range(int(np.prod(sh)))], float).reshape(sh))
    if all(np.ndim(x) > 0 and np.size(x) == 0 for x in X):
        X.append(1.5)
    return X


def fingerprint(X):
    """structure + shapes of a nested state as a callback sees it"""
    if isinstance(X, np.ndarray):
        return ('ndarray', X.shape)
    if not isinstance(X, (list, tuple)):
        return ('other', type(X).__name__)
    return tuple(('s',) if np.ndim(x) == 0 else ('a', tuple(np.shape(x))) for x in X)


def enc_state(X):
    out = [str(len(X))]
    for x in X:
        if np.ndim(x) == 0:
            out.append('S ' + f2b(float(x)))
        else:
            a = np.asarray(x, float)
            out.append('A %d %s %s' % (a.ndim, ' '.join(str(d) for d in a.shape), enc_list(a.ravel().tolist())))
    return ' '.join(out)


# ====================================================================== user models for the real solver
class _Cap(Exception):
    pass


def _mk_model(X0, t0, props, stops, log, ravel, dkind, name='m', clock=False):
    """clock=True: the LAST entry of the state is a scalar that starts at t0 and has derivative 1 (f = 1): it must be
    bit-identical with the time at every callback (x + 1.0*dt and currTime + dt are the same IEEE operation), i.e. the
    clock advances by exactly the step the iterator used for the state update"""
    vlib.use_repo()
    from kawin.GenericModel import GenericModel

    class ScriptModel(GenericModel):
        def __init__(self):
            super().__init__()
            self.X, self.t = X0, t0
            self.times, self.ndt, self.fp_bad = [], 0, []
            self.clocks, self.clock_bad = [], []
            self.ref = fingerprint(X0)

        def _clock(self, where, x, t):
            if not clock:
                return None
            try:
                v = float(x[-1])
            except Exception:      # structure broken: reported by the fingerprint check
                return None
            if v != float(t) and len(self.clock_bad) < 3:
                self.clock_bad.append((name, where, len(self.times), float(t), v))
            return v

        def _see(self, where, x):
            fp = fingerprint(x)
            log['callbacks'] = log.get('callbacks', 0) + 1
            if fp != self.ref and len(self.fp_bad) < 3:
                self.fp_bad.append((name, where, fp, self.ref))

        def getCurrentX(self):
            return self.t, self.X

        def getdXdt(self, t, x):
            self._see('getdXdt', x)
            self._clock('getdXdt', x, t)
            out = []
            for i, xi in enumerate(x):
                if clock and i == len(x) - 1:
                    out.append(1.0)
                elif np.ndim(xi) == 0:
                    out.append(0.25 if dkind == 'const' else -0.5 * float(xi))
                else:
                    a = np.asarray(xi, float)
                    out.append(np.full(a.shape, 0.25) if dkind == 'const' else -0.5 * a)
            return out

        def getDt(self, dXdt):
            self._see('getDt', dXdt)
            v = props[self.ndt % len(props)]
            self.ndt += 1
            return v

        def correctdXdt(self, dt, x, dXdt):
            self._see('correctdXdt.x', x)
            self._see('correctdXdt.dXdt', dXdt)

        def postProcess(self, time, x):
            self._see('postProcess', x)
            self.clocks.append(self._clock('postProcess', x, time))
            self.times.append(time)
            self.t, self.X = time, x
            if len(self.times) > CAP:
                raise _Cap()
            i = len(self.times) - 1
            return x, bool(stops[i]) if i < len(stops) else False

        if ravel:
            def flattenX(self, X):       # what models with higher-rank arrays supply (cf. kawin/diffusion/Diffusion.py)
                return np.concatenate([np.ravel(np.asarray(xi, float)) for xi in X])

    return ScriptModel()


def _iterator(which, wrap, seen):
    vlib.use_repo()
    from kawin.solver.Solver import SolverType
    from kawin.solver.Iterators import ExplicitEulerIterator, RK4Iterator
    if not wrap:
        return {'euler': SolverType.EXPLICITEULER, 'rk4': SolverType.RK4}[which]
    real = {'euler': ExplicitEulerIterator, 'rk4': RK4Iterator}[which]

    def wrapper(f, t, X_old, updateX):       # custom iterator passed as solverType (public extension point)
        xn, dt = real(f, t, X_old, updateX)
        seen.append((t, dt, np.shape(X_old), np.shape(xn)))
        return xn, dt
    return wrapper


def eff_proposal(vals):
    """what Coupler.getDt (np.amin over the models) must give, computed independently"""
    f = [float(v) for v in vals]
    return NAN if any(math.isnan(v) for v in f) else min(f)


def real_run(case):
    """runs the real solver; returns dict(times, dts(seen by a wrapper or None), err, fp_bad, callbacks)"""
    import warnings
    with np.errstate(all='ignore'), warnings.catch_warnings():
        warnings.simplefilter('ignore')      # the toy states may overflow; only the clock and the layout matter here
        return _real_run(case)


def _real_run(case):
    vlib.use_repo()
    from kawin.solver.Solver import DESolver
    from kawin.GenericModel import Coupler
    t0, sim, mn, mx = case['t0'], case['sim'], case['mn'], case['mx']
    log, seen = {}, []
    clock = bool(case.get('clock'))
    it = _iterator(case['iterator'], case['wrap'], seen)
    out = dict(times=None, seen=seen, err=None, fp_bad=[], capped=False, clock_bad=[], clocks=[])
    try:
        if case['entry'] == 'model':
            m = _mk_model(case['X0'][0], t0, case['props'][0], case['stops'][0], log, case['ravel'][0], case['dkind'], clock=clock)
            try:
                m.solve(sim, solverType=it, minDtFrac=mn, maxDtFrac=mx)
            finally:
                out['times'], out['fp_bad'], out['clock_bad'], out['clocks'] = m.times, m.fp_bad, m.clock_bad, m.clocks
        elif case['entry'] == 'coupler':
            ms = [_mk_model(case['X0'][i], t0, case['props'][i], case['stops'][i], log, case['ravel'][i], case['dkind'], 'm%d' % i, clock=clock)
                  for i in range(len(case['X0']))]
            c = Coupler(ms)
            c.time = np.array([t0])
            try:
                c.solve(sim, solverType=it, minDtFrac=mn, maxDtFrac=mx)
            finally:
                out['times'] = ms[0].times
                out['fp_bad'] = [b for m in ms for b in m.fp_bad]
                out['clock_bad'] = [b for m in ms for b in m.clock_bad]
                out['clocks'] = ms[0].clocks
                out['sub_times'] = [list(m.times) for m in ms]
                out['coupler_time'] = c.time.tolist()
        elif case['entry'] == 'nested':
            ms = [_mk_model(case['X0'][i], t0, case['props'][i], case['stops'][i], log, case['ravel'][i], case['dkind'], 'm%d' % i, clock=clock)
                  for i in range(len(case['X0']))]
            cps = []
            c = build_topology(case['topology'], ms, Coupler, couplers=cps)
            c.time = np.array([t0])
            try:
                c.solve(sim, solverType=it, minDtFrac=mn, maxDtFrac=mx)
            finally:
                out['times'] = ms[0].times
                out['fp_bad'] = [b for m in ms for b in m.fp_bad]
                out['clock_bad'] = [b for m in ms for b in m.clock_bad]
                out['clocks'] = ms[0].clocks
                out['sub_times'] = [list(m.times) for m in ms]
                out['coupler_time'] = c.time.tolist()
                out['inner_times'] = [np.asarray(q.time, float).tolist()[1:] for q in cps if q is not c]
        else:   # DESolver used directly on a flat array
            s = DESolver(it, minDtFrac=mn, maxDtFrac=mx)
            props, stops = case['props'][0], case['stops'][0]
            st = dict(n=0, times=[], bad=[], clock_bad=[], clocks=[])
            x0 = np.asarray(case['X0'][0][0], float)
            if clock:       # last component: starts at t0, derivative 1
                x0 = np.concatenate([x0, [float(t0)]])

            def f(t, x):
                if np.shape(x) != x0.shape:
                    st['bad'].append(('desolver', 'f', np.shape(x), x0.shape))
                d = -0.5 * x
                if clock and np.shape(x) == x0.shape:
                    d[-1] = 1.0
                    if float(x[-1]) != float(t) and len(st['clock_bad']) < 3:
                        st['clock_bad'].append(('desolver', 'f', len(st['times']), float(t), float(x[-1])))
                return d

            def getdt(dXdt):
                v = props[st['n'] % len(props)]; st['n'] += 1; return v

            def post(t, x):
                if np.shape(x) != x0.shape:
                    st['bad'].append(('desolver', 'postProcess', np.shape(x), x0.shape))
                elif clock:
                    st['clocks'].append(float(x[-1]))
                    if float(x[-1]) != float(t) and len(st['clock_bad']) < 3:
                        st['clock_bad'].append(('desolver', 'postProcess', len(st['times']), float(t), float(x[-1])))
                st['times'].append(t)
                if len(st['times']) > CAP:
                    raise _Cap()
                i = len(st['times']) - 1
                return x, bool(stops[i]) if i < len(stops) else False
            s.setFunctions(postProcess=post)
            s.setdXdtFunctions(f, s.correctdXdtNotImplemented, getdt, s.flattenXNotImplemented, s.unflattenXNotImplemented)
            try:
                s.solve(t0, x0, t0 + sim)
            finally:
                out['times'], out['fp_bad'] = st['times'], st['bad'][:3]
                out['clock_bad'], out['clocks'] = st['clock_bad'], st['clocks']
    except _Cap:
        out['capped'] = True
    except Exception as e:        # the solver must not fall over on any numeric proposal
        out['err'] = '%s: %s' % (type(e).__name__, e)
    out['callbacks'] = log.get('callbacks', 0)
    out['times'] = [float(t) for t in (out['times'] or [])]
    return out


def gen_topology(rng, n, depth):
    """nested list over the leaf numbers 0..n-1 in order: a list is a Coupler, an int a leaf model; `depth` levels of Couplers
    are reached when n allows (Coupler([Coupler([0, 1]), 2]) = [[0, 1], 2])"""
    leaves = list(range(n))

    def split(items, d):
        if d <= 1 or len(items) < 2:
            return list(items)
        k = rng.randint(1, min(3, len(items)))
        cuts = sorted(rng.sample(range(1, len(items)), k - 1)) if k > 1 else []
        parts = [items[a:b] for a, b in zip([0] + cuts, cuts + [len(items)])]
        out, nested = [], False
        for part in parts:
            if len(part) == 1 and (nested or rng.random() < 0.6) and len(parts) > 1:
                out.append(part[0])
            else:
                out.append(split(part, d - 1)); nested = True
        return out
    for _ in range(20):
        t = split(leaves, depth)
        if topo_depth(t) >= min(depth, 2):
            return t
    return [leaves[:-1], leaves[-1]] if n >= 2 else [[0]]


def topo_depth(t):
    return 0 if isinstance(t, int) else 1 + max([topo_depth(k) for k in t] + [0])


def build_topology(topo, leaves, Coupler, top_cls=None, couplers=None):
    """the real objects: Coupler (or top_cls at the root) over the leaf models"""
    def go(t, root):
        if isinstance(t, int):
            return leaves[t]
        c = (top_cls if (root and top_cls) else Coupler)([go(k, False) for k in t])
        if couplers is not None:
            couplers.append(c)
        return c
    return go(topo, True)


def gen_case(rng):
    mode = rng.choice(['dyadic', 'dyadic', 'general'])
    t0, sim, mn, mx = gen_config(rng, mode)
    span = (t0 + sim) - t0
    entry = rng.choice(['model', 'model', 'coupler', 'desolver', 'nested'])
    nm = rng.choice([2, 2, 3]) if entry == 'coupler' else rng.choice([2, 3, 3, 4, 5]) if entry == 'nested' else 1
    props, stops = [], []
    p0, s0 = gen_script(rng, mode, span, mn, mx)
    for i in range(nm):
        if i == 0:
            props.append(p0); stops.append(s0)
        else:
            pi, si = gen_script(rng, mode, span, mn, mx)
            # same script length for all coupled models, so that the effective script is cyclic with that length
            pi = (pi * len(p0))[:len(p0)]
            if mn < 1 / 400:
                si = s0
            props.append(pi); stops.append(si)
    ravel = [rng.random() < 0.4 for _ in range(nm)]
    if entry == 'desolver':
        X0 = [[np.array([rng.uniform(-2, 2) for _ in range(rng.choice([1, 2, 7]))], float)]]
        ravel = [False]
    else:
        X0 = [gen_state(rng, allow_nd=ravel[i]) for i in range(nm)]
    if entry != 'desolver':      # the clock entry (f = 1, starts at t0) goes last; DESolver entry: appended in _real_run
        X0 = [X + [float(t0)] for X in X0]
    case = dict(mode=mode, t0=t0, sim=sim, mn=mn, mx=mx, entry=entry, iterator=rng.choice(['euler', 'rk4']),
                wrap=rng.random() < 0.4, props=props, stops=stops, ravel=ravel, X0=X0, dkind=rng.choice(['const', 'decay']), clock=True)
    if entry == 'nested':       # a Coupler as one of the models of another Coupler, 2-3 levels
        case['topology'] = gen_topology(rng, nm, rng.choice([2, 2, 3]))
    return case


def witnesses():
    """designated inputs that run first on every run (found by this check; see known_findings.txt):
    a single-precision proposal turned `currTime` into np.float32 (currTime += dt), and at t0 = 2^24 a float32
    clock cannot advance by 0.5 any more: accepted times stopped increasing and the run never ended"""
    out = []
    for entry, it in (('desolver', 'euler'), ('model', 'rk4')):
        out.append(dict(mode='dyadic', t0=16777216.0, sim=4.0, mn=1 / 16, mx=1.0, entry=entry, iterator=it, wrap=False,
                        props=[[np.float32(0.5)]], stops=[[]], ravel=[False], dkind='decay', clock=True,
                        X0=[[np.array([1.0, 2.0])] + ([16777216.0] if entry != 'desolver' else [])]))
    return out


def effective_script(case):
    n = len(case['props'][0])
    props = [eff_proposal([p[i] for p in case['props']]) for i in range(n)]
    L = max(len(s) for s in case['stops'])
    stops = [any(s[i] for s in case['stops'] if i < len(s)) for i in range(L)]
    return props, stops


def describe(case):
    d = {k: case[k] for k in ('mode', 't0', 'sim', 'mn', 'mx', 'entry', 'iterator', 'wrap', 'ravel', 'dkind')}
    d['kind'] = 'script-run'
    d['clock'] = bool(case.get('clock'))
    d['tf'] = case['t0'] + case['sim']
    d['proposals'] = [[repr(v) for v in p] for p in case['props']]
    d['stops'] = case['stops']
    d['state_shapes'] = [[list(np.shape(x)) for x in X] for X in case['X0']]
    if 'topology' in case:
        d['topology'] = case['topology']
    return d


# ====================================================================== direct oracle on one observed run
def oracle(res, case, run, desc):
    t0 = case['t0']; tf = t0 + case['sim']; mn, mx = case['mn'], case['mx']
    span = tf - t0
    exact = case['mode'] == 'dyadic'
    times = run['times']
    site = '%s-%s' % (case['entry'], case['iterator'])
    props, stops = effective_script(case)
    if run['err']:
        res.violate('solver-raised-' + site, 'the solver raised on a numeric proposal script%s: %s' % (
            ' (models coupled as %s: a Coupler among the models of a Coupler)' % (case['topology'],) if 'topology' in case else '', run['err']), desc, run['err'], 'no exception')
        return
    nbound = math.ceil(1 / mn) + 2 if mn <= mx else math.ceil(1 / min(mn, mx)) + 2
    if run['capped']:
        if nbound < CAP:
            res.violate('no-termination-' + site, 'the run did not end within %d iterations (bound ceil(1/minDtFrac)+2 = %d)' % (CAP, nbound), desc, CAP, nbound)
        else:
            res.count('capped-by-design')
        return
    if span <= 0:
        if times:
            res.violate('steps-with-nonpositive-duration', 'steps were taken although tf <= t0', desc, times[:3], [])
        return
    tol = 0.0 if exact else 4 * math.ulp(max(abs(tf), abs(t0)))
    # 0. time bookkeeping: t_{k+1} = t_k + dt_k with dt_k the step the iterator used for the state update.
    #    (a) an f = 1 entry that starts at t0 is the clock: x + 1.0*dt and currTime + dt are the same IEEE operation, so the
    #        two are bit-identical at every callback, for both iterators and any doubles (theorem solveX_const / _clock_*)
    #    (b) the step a custom iterator wrapper saw returned
    if run.get('clock_bad'):
        b = run['clock_bad'][0]
        res.violate('clock-state-differs-from-time-' + site,
                    'an entry with derivative 1 that started at t0 was handed to %s of %s (accepted step %d) with value %r at time %r: the time does not equal '
                    'previous time + the step the iterator used for the state update' % (b[1], b[0], b[2], b[4], b[3]), desc, b[4], b[3])
    if run['seen'] and len(run['seen']) == len(times):
        prev = t0
        for i, (sn, t) in enumerate(zip(run['seen'], times)):
            if float(sn[0]) != prev or prev + float(sn[1]) != t:
                res.violate('time-not-previous-plus-step-' + site,
                            'accepted time %d is %r, but the iterator was called at %r (previous accepted time %r) and returned the step %r: %r expected' % (
                                i, t, float(sn[0]), prev, float(sn[1]), prev + float(sn[1])), desc, t, prev + float(sn[1]))
                break
            prev = t
    # 1. strictly increasing
    prev = t0
    for i, t in enumerate(times):
        if not (t > prev):
            res.violate('time-not-increasing-' + site, 'accepted time %d does not increase: %r after %r (proposal %r)' % (i, t, prev, props[i % len(props)]), desc, [prev, t], 'strictly increasing')
            return
        prev = t
    # 2. never beyond tf (one ulp for general doubles: rounding of c + (tf - c))
    lim = tf if exact else math.nextafter(tf, INF)
    for i, t in enumerate(times):
        if t > lim:
            res.violate('overshoot-' + site, 'accepted time %d = %r exceeds the end time %r (proposal %r)' % (i, t, tf, props[i % len(props)]), desc, t, '<= %r' % tf)
            return
    # 3./4. step bounds
    starts = [t0] + times[:-1]
    dts = [b - a for a, b in zip(starts, times)]
    if run['seen'] and len(run['seen']) == len(times):
        dts_true = [float(s[1]) for s in run['seen']]
    else:
        dts_true = None
    dtmin, dtmax = mn * span, mx * span
    for i, (a, b) in enumerate(zip(starts, times)):
        d = dts_true[i] if dts_true is not None else dts[i]
        slack = 0.0 if (exact or dts_true is not None) else tol
        if d > dtmax + slack:
            res.violate('step-above-max-' + site, 'step %d = %r exceeds maxDtFrac*(tf-t0) = %r (proposal %r)' % (i, d, dtmax, props[i % len(props)]), desc, d, '<= %r' % dtmax)
            return
        last_like = abs(b - tf) <= (0.0 if exact else 4 * math.ulp(abs(tf))) or b >= tf
        if mn <= mx and d < dtmin - slack and not last_like:
            res.violate('step-below-min-' + site, 'step %d = %r is below minDtFrac*(tf-t0) = %r and does not end at tf (ends %r, proposal %r)' % (i, d, dtmin, b, props[i % len(props)]), desc, d, '>= %r' % dtmin)
            return
    if mn > mx:
        res.count('config:min>max (lower bound not applicable)')
    # 5./6. end of the run: stop honoured, otherwise exact arrival
    kstop = next((i for i, s in enumerate(stops) if s), None)
    reached = lambda t: t == tf if exact else abs(t - tf) <= 4 * math.ulp(abs(tf)) + 0.0
    if kstop is not None and len(times) > kstop + 1:
        res.violate('stop-ignored-' + site, 'the model asked to stop after step %d but %d steps were taken' % (kstop + 1, len(times)), desc, len(times), kstop + 1)
        return
    stopped = kstop is not None and len(times) == kstop + 1
    if not stopped:
        if not times or not reached(times[-1]):
            res.violate('end-time-not-reached-' + site, 'no stop was requested but the run ended at %r instead of tf = %r' % (times[-1] if times else t0, tf), desc, times[-1] if times else t0, tf)
            return
    res.count('end:stopped' if stopped and not reached(times[-1]) else 'end:arrived')
    # 7. termination bound
    if len(times) > nbound:
        res.violate('too-many-steps-' + site, '%d steps, bound ceil(1/minDtFrac)+2 = %d' % (len(times), nbound), desc, len(times), nbound)
    # 8. callbacks saw the reference structure
    if run['fp_bad']:
        b = run['fp_bad'][0]
        res.violate('callback-state-structure-' + case['entry'], 'callback %s of %s got a state with structure/shapes %s, the model supplied %s' % (b[1], b[0], b[2], b[3]), desc, repr(b[2]), repr(b[3]))
    # Coupler: every model saw every step, and the coupler clock recorded them
    if case['entry'] in ('coupler', 'nested') and 'sub_times' in run:
        pre = 'coupler' if case['entry'] == 'coupler' else 'nested-coupler'
        for i, st in enumerate(run['sub_times']):
            if [float(t) for t in st] != times:
                res.violate(pre + '-submodel-steps', 'coupled model %d saw other accepted times than model 0' % i, desc, st[:5], times[:5])
        if [float(t) for t in run['coupler_time'][1:]] != times:
            res.violate(pre + '-clock', 'Coupler.time does not record the accepted times', desc, run['coupler_time'][:5], times[:5])
        for q in run.get('inner_times', []):
            if [float(t) for t in q] != times:
                res.violate('nested-coupler-inner-clock', 'the time record of a Coupler that is a sub-model of another Coupler does not hold the accepted times', desc, q[:5], times[:5])


# ====================================================================== flatten correspondence + oracle
def flatten_cases(ctx, res, oracle_only):
    vlib.use_repo()
    from kawin.GenericModel import GenericModel, Coupler
    rng = ctx.rng
    N = ctx.n(250, 4000)
    lines, cases = [], []

    def model(ravel):
        m = GenericModel()
        if ravel:
            m.flattenX = lambda X: np.concatenate([np.ravel(np.asarray(xi, float)) for xi in X])
        return m

    # the documented default layouts first, on every run: lists mixing Python floats, NumPy scalars and arrays in every order
    A = lambda *v: np.array(v, float)
    preset = [[1.5, 2.5], [np.float64(1.5), 2.5], [1.5, A(2.5, 3.5)], [A(1.5, 2.5), 3.5, A(4.5)], [1.5, 2.5, A(3.5, 4.5, 5.5)], [A(1.5), np.float64(2.5)],
              [1.5, A(), 2.5], [[1.5, 2.5], 3.5], [1.5, [2.5], A(3.5, 4.5)], [1.5, np.float64(2.5), 3.5, A(4.5, 5.5), 6.5]]
    for k in range(len(preset) + N):
        kind = rng.choice(['rt', 'un', 'un-short', 'un-long', 'c', 'c', 'cu']) if k >= len(preset) else 'rt'
        if kind in ('rt', 'un', 'un-short', 'un-long'):
            ravel = rng.random() < 0.4 if k >= len(preset) else False
            X = gen_state(rng, allow_nd=ravel) if k >= len(preset) else preset[k]
            m = model(ravel)
            tot = int(sum(np.size(x) for x in X))
            if kind == 'rt':
                try:
                    flat = m.flattenX(X)
                except Exception as e:      # no exception of the code under test may abort the run: it is a finding
                    res.violate('flattenX-raised', 'flattenX raised %s: %s on a state of scalars and arrays (shapes %s)' % (type(e).__name__, e, [list(np.shape(v)) for v in X]),
                                dict(kind='flatten-rt', shapes=[list(np.shape(v)) for v in X], ravel=ravel), repr(e), 'no exception')
                    continue
                try:
                    Y = m.unflattenX(flat, X)
                except Exception as e:
                    Y = None
                lines.append('flat.rt ' + enc_state(X))
                cases.append((kind, X, flat, Y, ravel))
            else:
                L = tot if kind == 'un' else max(0, tot - rng.randint(1, 3)) if kind == 'un-short' else tot + rng.randint(1, 4)
                flat = np.array([rng.uniform(-9, 9) for _ in range(L)], float)
                try:
                    Y = m.unflattenX(flat, X)
                except Exception:
                    Y = None
                lines.append('flat.un %s %s' % (enc_list(flat.tolist()), enc_state(X)))
                cases.append((kind, X, flat, Y, ravel))
        else:
            nm = rng.choice([2, 2, 3])
            rav = [rng.random() < 0.4 for _ in range(nm)]
            Xs = [gen_state(rng, allow_nd=rav[i]) for i in range(nm)]
            try:
                c = Coupler([model(r) for r in rav])
                flat = c.flattenX(Xs)
                sizes = list(c._sizeRef)
            except Exception as e:
                shp = [[list(np.shape(v)) for v in x] for x in Xs]
                res.violate('coupler-flattenX-raised', 'Coupler.flattenX raised %s: %s (structure %s)' % (type(e).__name__, e, shp),
                            dict(kind='flatten-c', shapes=shp, ravel=rav), repr(e), 'no exception')
                continue
            if kind == 'c':
                try:
                    Ys = c.unflattenX(flat, Xs)
                except Exception:
                    Ys = None
                lines.append('flat.c %d %s' % (nm, ' '.join(enc_state(X) for X in Xs)))
                cases.append((kind, Xs, flat, Ys, (rav, sizes)))
            else:
                L = len(flat) + rng.choice([0, 0, 0, -1, -2, 2])
                flat2 = np.array([rng.uniform(-9, 9) for _ in range(max(0, L))], float)
                try:
                    Ys = c.unflattenX(flat2, Xs)
                except Exception:
                    Ys = None
                lines.append('flat.cu %s %s %d %s' % (enc_list(flat2.tolist()), vlib.enc_ilist(sizes), nm, ' '.join(enc_state(X) for X in Xs)))
                cases.append((kind, Xs, flat2, Ys, (rav, sizes)))
    model_out = vlib.run_driver(PROP, lines) if (ctx.driver_ok and not oracle_only) else None
    for k, (kind, X, flat, Y, extra) in enumerate(cases):
        res.count('flatten:' + kind)
        if kind in ('c', 'cu'):
            shapes = tuple(fingerprint(x) for x in X)
            desc = dict(kind='flatten-' + kind, shapes=[[list(np.shape(v)) for v in x] for x in X], ravel=extra[0], flat_len=int(len(flat)), sizeRef=extra[1])
            res.case(('flat', kind, shapes), sum(len(x) for x in X) > 2)
            impl = 'E' if Y is None else '%d %s' % (len(Y), ' '.join(enc_state(y) for y in Y))
            if kind == 'c':
                impl = '%s %s %s' % (vlib.enc_ilist(extra[1]), enc_list(np.asarray(flat).tolist()), impl)
                # oracle: round trip gives back the same structure, shapes and numbers; sizes add up
                ok = Y is not None and len(Y) == len(X) and all(fingerprint(a) == fingerprint(b) for a, b in zip(X, Y)) and \
                    all(np.array_equal(np.asarray(u, float), np.asarray(v, float)) for a, b in zip(X, Y) for u, v in zip(a, b))
                if not ok:
                    res.violate('coupler-flatten-roundtrip', 'Coupler.unflattenX(flattenX(X), X) does not give X back (structure %s)' % (desc['shapes'],), desc,
                                None if Y is None else [fingerprint(y) for y in Y], [fingerprint(x) for x in X])
                if sum(extra[1]) != len(flat) or np.ndim(flat) != 1:
                    res.violate('coupler-sizeref', '_sizeRef %s does not add up to the flat length %d' % (extra[1], len(flat)), desc, extra[1], len(flat))
            else:
                tot = sum(extra[1])
                if Y is None and len(flat) >= tot:
                    res.violate('coupler-unflatten-raised', 'Coupler.unflattenX raised on a flat vector of sufficient length', desc, len(flat), tot)
                if Y is not None and any(fingerprint(a) != fingerprint(b) for a, b in zip(X, Y)):
                    res.violate('coupler-unflatten-structure', 'Coupler.unflattenX returned another structure than the reference', desc, [fingerprint(y) for y in Y], [fingerprint(x) for x in X])
        else:
            desc = dict(kind='flatten-' + kind, shapes=[list(np.shape(v)) for v in X], ravel=extra, flat_len=int(np.size(flat)))
            res.case(('flat', kind, fingerprint(X)), len(X) > 1)
            impl = 'E' if Y is None else enc_state(Y)
            tot = int(sum(np.size(x) for x in X))
            if kind == 'rt':
                impl = '%s %s' % (enc_list(np.asarray(flat).ravel().tolist()), impl)
                ok = Y is not None and fingerprint(Y) == fingerprint(X) and all(np.array_equal(np.asarray(u, float), np.asarray(v, float)) for u, v in zip(X, Y))
                if not ok or np.ndim(flat) != 1 or len(flat) != tot:
                    res.violate('flatten-roundtrip', 'unflattenX(flattenX(X), X) does not give X back (shapes %s)' % (desc['shapes'],), desc,
                                None if Y is None else repr(fingerprint(Y)), repr(fingerprint(X)))
            else:
                if Y is None and len(flat) >= tot:
                    res.violate('unflatten-raised', 'unflattenX raised on a flat vector of sufficient length', desc, len(flat), tot)
                if Y is not None and fingerprint(Y) != fingerprint(X):
                    res.violate('unflatten-structure', 'unflattenX returned another structure than the reference', desc, repr(fingerprint(Y)), repr(fingerprint(X)))
                if Y is not None and len(flat) >= tot:
                    back = np.concatenate([np.ravel(np.asarray(y, float)) for y in Y])
                    if not np.array_equal(back, flat[:tot]):
                        res.violate('unflatten-values', 'unflattenX lost or reordered values', desc, back.tolist()[:6], flat[:6].tolist())
        if model_out is not None:
            t = Toks(model_out[k])
            got = ' '.join(t.t[1:]) if t.ok else 'err ' + str(t.err)
            if got != impl:
                # a too-short flat vector with only empty arrays left may legitimately not fail in NumPy slicing: compare semantics, not text
                res.disagree('flatten/unflatten (%s)' % kind, desc, impl[:300], got[:300])


# ====================================================================== layout / resize runs
# States that are lists mixing scalars (Python float, NumPy float64), 1-D arrays (also empty), nested lists of floats and
# (with a flattenX override) 2-D arrays in every order, solved alone and as 2-3 coupled models, 1-3 consecutive solve calls,
# both iterators; at scripted accepted steps a model returns a state of ANOTHER length from postProcess (arrays grow /
# shrink at either end, whole entries appear / disappear: the adaptive-bin pattern of the population balance).
# Every entry e has its own constant derivative r_e, so the content every callback must receive is known:
#   state callbacks at time t:  x_e = X_e + r_e*(t - tX)   (X = what the model supplied last, at time tX)
#   derivative callbacks:       r_e
# (exact on dyadic inputs; Euler and Runge-Kutta are both exact on constants: theorem solveX_const).  Entry 0 of every model
# is the clock (starts at t0, derivative 1): bit-identical with the time at every callback, for any doubles.
NAMED_LAYOUTS = [
    [['f']], [['n']], [['f'], ['f']], [['n'], ['f']], [['f'], ['a', 3]], [['a', 2], ['f'], ['a', 3]], [['f'], ['a', 0], ['n'], ['a', 1]],
    [['a', 2], ['n']], [['l', 2], ['f']], [['f'], ['l', 1], ['a', 2]], [['a', 4]], [['f'], ['f'], ['f']], [['a', 1], ['a', 1]],
]


def _item_values(j, i, spec, general):
    """initial values and derivatives of entry i (i >= 1) of model j: distinct few-bit dyadics"""
    n = {'f': 1, 'n': 1, 'a': None, 'l': None, 'm': None}[spec[0]]
    cnt = 1 if n == 1 else int(np.prod(spec[1])) if spec[0] == 'm' else int(spec[1])
    v = np.array([((5 * j + 11 * i + 3 * e) % 17) / 4 + 1 + 8 * j for e in range(cnt)], float)
    r = np.array([((7 * j + 3 * i + e) % 9 - 4) / 8 for e in range(cnt)], float)
    if general:
        v, r = v * 1.1, r * 0.7
    if spec[0] == 'f':
        return float(v[0]), float(r[0])
    if spec[0] == 'n':
        return np.float64(v[0]), np.float64(r[0])
    if spec[0] == 'l':
        return [float(u) for u in v], [float(u) for u in r]
    if spec[0] == 'm':
        return v.reshape(tuple(spec[1])), r.reshape(tuple(spec[1]))
    return v, r


def cfp(X):
    """structure + shapes as a callback can observe them (a nested list of floats comes back as an array of that shape)"""
    if not isinstance(X, (list, tuple)):
        return ('not-a-list', type(X).__name__)
    return tuple(('s',) if np.ndim(x) == 0 else ('a', tuple(np.shape(x))) for x in X)


def _content_same(got, exp, exact, tres):
    """tres: time resolution term |t| ulp for general doubles (t - tX is formed from rounded times)"""
    for g, e, in zip(got, exp):
        ga, ea = np.asarray(g, float), np.asarray(e[0], float)
        if ga.shape != ea.shape:
            return False
        if exact:
            if not np.array_equal(ga, ea):
                return False
        elif ga.size:
            tol = 1e-10 * max(1.0, float(np.max(np.abs(ea)))) + float(np.max(np.abs(np.asarray(e[1], float)))) * tres
            if np.any(np.abs(ga - ea) > tol):
                return False
    return True


def _mk_layout_model(j, spec, t0, exact, log, name):
    vlib.use_repo()
    from kawin.GenericModel import GenericModel
    general = not exact

    class LayoutModel(GenericModel):
        def __init__(self):
            super().__init__()
            self.X, self.R = [float(t0)], [1.0]
            for i, sp in enumerate(spec['layout']):
                v, r = _item_values(j, i + 1, sp, general)
                self.X.append(v); self.R.append(r)
            self.t = self.tX = float(t0)
            self.nsteps, self.ndt, self.seq = 0, 0, 0
            self.bad, self.clock_bad, self.times, self.applied = [], [], [], 0
            self.npre, self.hook = 0, None
            self.resize = {int(k): v for k, v in spec['resize'].items()}

        # ---- what the callbacks must receive
        def _check(self, where, x, t=None, rate=False):
            log['callbacks'] = log.get('callbacks', 0) + 1
            want = cfp(self.X)
            got = cfp(x)
            if got != want:
                if len(self.bad) < 3:
                    self.bad.append((name, where, self.nsteps, 'structure', repr(got), repr(want)))
                return
            if rate:
                exp = [(r, 0.0) for r in self.R]
                tres = 0.0
            else:
                d = float(t) - self.tX
                exp = [(np.asarray(xi, float) + np.asarray(r, float) * d, r) for xi, r in zip(self.X, self.R)]
                tres = 8 * math.ulp(max(abs(float(t)), abs(self.tX), 1e-300))
                if float(x[0]) != float(t) and len(self.clock_bad) < 3:
                    self.clock_bad.append((name, where, self.nsteps, float(t), float(x[0])))
            if not _content_same(x, exp, exact, tres) and len(self.bad) < 3:
                self.bad.append((name, where, self.nsteps, 'content', [np.asarray(v, float).tolist() for v in x], [np.asarray(e[0], float).tolist() for e in exp]))

        def getCurrentX(self):
            return self.t, self.X

        def preProcess(self):
            self.npre += 1

        def getdXdt(self, t, x):
            self._check('getdXdt', x, t)
            if self.hook:
                self.hook('getdXdt')
            return [type(r)(r) if np.ndim(r) == 0 else list(r) if isinstance(r, list) else np.array(r, float) for r in self.R]

        def getDt(self, dXdt):
            self._check('getDt', dXdt, rate=True)
            v = spec['props'][self.ndt % len(spec['props'])]
            self.ndt += 1
            return v

        def correctdXdt(self, dt, x, dXdt):
            self._check('correctdXdt.x', x, self.tX)
            self._check('correctdXdt.dXdt', dXdt, rate=True)

        # ---- scripted resizes
        def _new(self, n):
            v = np.array([100.0 + ((self.seq + e) * 5 % 64) / 8 + 16 * j for e in range(n)], float)
            r = np.array([((self.seq + e) * 3 % 9 - 4) / 8 for e in range(n)], float)
            self.seq += n
            return (v, r) if exact else (v * 1.1, r * 0.7)

        def _apply(self, op):
            kind, idx, n = op[0], int(op[1]), int(op[2])
            X, R = list(self.X), list(self.R)
            if kind == 'newitem':
                v, r = self._new(n); X.append(v); R.append(r)
            elif kind == 'dropitem':
                if len(X) <= 1:
                    return False
                X.pop(); R.pop()
            else:
                arrs = [i for i in range(1, len(X)) if np.ndim(X[i]) == 1]
                if not arrs:
                    return False
                i = arrs[idx % len(arrs)]
                xi, ri = np.asarray(X[i], float), np.asarray(R[i], float)
                if kind in ('grow', 'growfront'):
                    v, r = self._new(n)
                    xi, ri = (np.concatenate([xi, v]), np.concatenate([ri, r])) if kind == 'grow' else (np.concatenate([v, xi]), np.concatenate([r, ri]))
                else:
                    n = min(n, len(xi))
                    if n == 0:
                        return False
                    xi, ri = (np.array(xi[:len(xi) - n]), np.array(ri[:len(ri) - n])) if kind == 'shrink' else (np.array(xi[n:]), np.array(ri[n:]))
                X[i], R[i] = xi, ri
            self.X, self.R = X, R
            return True

        def postProcess(self, time, x):
            self._check('postProcess', x, time)
            if self.hook:
                self.hook('postProcess')
            self.times.append(float(time))
            self.nsteps += 1
            if len(self.times) > CAP:
                raise _Cap()
            # the model keeps what it was handed (as kawin's models do) and, at scripted steps, resizes it
            self.X = list(x) if cfp(x) == cfp(self.X) else self.X
            self.t = self.tX = float(time)
            for op in self.resize.get(self.nsteps, []):
                if self._apply(op):
                    self.applied += 1
            return self.X, False

        if spec.get('ravel'):
            def flattenX(self, X):
                return np.concatenate([np.ravel(np.asarray(xi, float)) for xi in X])

    return LayoutModel()


def gen_layout_case(rng, force=None):
    mode = rng.choice(['dyadic', 'dyadic', 'general'])
    entry = rng.choice(['coupler', 'coupler', 'coupler', 'model'])
    if force in ('nested', 'bystander'):
        entry = 'coupler'
    nm = rng.choice([2, 2, 3]) if entry == 'coupler' else 1
    if force == 'nested':
        nm = rng.choice([2, 3, 3, 4, 5])
    nsolve = rng.choice([1, 1, 2, 3])
    if mode == 'dyadic':
        t0 = rng.choice([0.0, 1.0, -2.0, 3.0, dy(rng, -8, 8, 16), 1024.0])
        sims = [rng.choice([1.0, 2.0, 0.5, 4.0, dy(rng, 0.25, 8, 8) or 1.0]) for _ in range(nsolve)]
        mn = rng.choice([0.25, 0.125, 1 / 16, 1 / 64, 1 / 256])
        mx = rng.choice([1.0, 1.0, 0.5, 0.25])
    else:
        # coarse and fine minimum / maximum step fractions, simulation times that are not multiples of the step, t0 != 0
        t0 = rng.choice([0.0, 3.0, -2.5, rng.uniform(-10, 10), rng.uniform(0, 100)])
        sims = [rng.choice([1.0, rng.uniform(0.5, 20.0)]) for _ in range(nsolve)]
        mn = rng.choice([1e-3, 2e-3, 4e-3, 1e-2, 0.05, 0.1, 0.3, 1e-8, 10 ** rng.uniform(-3, -0.5)])
        mx = rng.choice([1.0, 1.0, 0.5, 0.3, 0.1])
    mx = max(mx, mn)
    models = []
    for j in range(nm):
        ravel = rng.random() < 0.25
        if rng.random() < 0.5:
            layout = [list(sp) for sp in rng.choice(NAMED_LAYOUTS)]
        else:
            layout = []
            for _ in range(rng.choice([1, 2, 2, 3, 4])):
                k = rng.random()
                layout.append(['f'] if k < 0.2 else ['n'] if k < 0.35 else ['l', rng.choice([1, 2, 3])] if k < 0.42 else
                              ['m', [rng.choice([1, 2, 3]), rng.choice([1, 2])]] if (k < 0.55 and ravel) else ['a', rng.choice([0, 1, 2, 3, 5, 8])])
        if any(sp[0] == 'm' for sp in layout):
            ravel = True
        if mode == 'dyadic':
            props = [max(sims) * dy(rng, 0.04, 0.6, 64) for _ in range(rng.choice([1, 2, 3, 5]))]
        else:
            n, frac = rng.choice([3, 5, 8, 13, 21, 34]), rng.choice([0.1, 0.37, 0.5, 0.9])
            props = [sims[0] / (n + frac)] if rng.random() < 0.6 else [sims[0] * rng.uniform(0.03, 0.5) for _ in range(3)]
        # resize script: accepted-step number (counted over all solve calls) -> operations
        resize = {}
        r = rng.random()
        nres = 0 if r < 0.25 else rng.choice([1, 1, 2, 3, 5])
        if force == 'resize':
            nres = max(nres, 1) if j == 0 or rng.random() < 0.5 else nres
        for _ in range(nres):
            k = rng.choice([1, 1, 2, 2, 3, 4, 5, 7, 9, 12, 20])
            op = rng.choice(['grow', 'grow', 'shrink', 'shrink', 'growfront', 'shrinkfront', 'newitem', 'dropitem'])
            resize.setdefault(str(k), []).append([op, rng.randint(0, 3), rng.choice([1, 1, 2, 3, 6])])
        models.append(dict(layout=layout, props=props, resize=resize, ravel=ravel))
    case = dict(kind='layout-run', mode=mode, entry=entry, iterator=rng.choice(['euler', 'rk4']), t0=t0, sims=sims, mn=mn, mx=mx, models=models)
    if force == 'nested':
        case['entry'] = 'nested'
        case['topology'] = gen_topology(rng, nm, rng.choice([2, 2, 3]))
    if force == 'bystander' or (force == 'nested' and rng.random() < 0.3):
        # an independent Coupler (other sizes) whose flattenX / unflattenX are called from inside the callbacks of leaf 0 while the run goes on
        case['bystander'] = [[list(np.shape(x)) for x in gen_state(rng)] for _ in range(rng.choice([2, 2, 3]))]
        if force == 'bystander':
            case['entry'] = 'coupler+bystander'
    return case


def layout_witnesses():
    """fixed cases that run first on every run: the documented default layouts ([float, float], [float, array], ...) alone,
    and couplers in which the first / the last / a middle model grows or shrinks, in the first and in a later solve call"""
    out = []
    for it in ('euler', 'rk4'):
        for lay in ([['f']], [['f'], ['a', 2]], [['a', 2], ['f'], ['a', 1]], [['n'], ['f']]):
            out.append(dict(kind='layout-run', mode='dyadic', entry='model', iterator=it, t0=1.0, sims=[1.0], mn=1 / 64, mx=1.0,
                            models=[dict(layout=lay, props=[0.1875], resize={}, ravel=False)]))
        A = lambda rs: dict(layout=[['a', 3]], props=[0.125], resize=rs, ravel=False)
        B = lambda rs: dict(layout=[['f'], ['a', 5]], props=[0.1875], resize=rs, ravel=False)
        C = lambda rs: dict(layout=[['a', 2], ['n'], ['a', 4]], props=[0.25], resize=rs, ravel=False)
        for ms, sims in (([A({'3': [['grow', 0, 1]]}), B({})], [1.0]),
                         ([A({}), B({'3': [['grow', 0, 2]]})], [1.0]),
                         ([A({}), B({'4': [['shrink', 0, 2]]}), C({})], [1.0]),
                         ([A({'2': [['grow', 0, 1]]}), B({'2': [['shrinkfront', 0, 1]]})], [1.0, 0.5]),
                         ([A({'10': [['growfront', 0, 2]]}), B({}), C({'12': [['shrink', 1, 1]], '13': [['newitem', 0, 2]]})], [1.0, 1.0]),
                         ([A({'1': [['shrink', 0, 3]], '2': [['grow', 0, 2]], '5': [['dropitem', 0, 0]]}), B({})], [1.0])):
            out.append(dict(kind='layout-run', mode='dyadic', entry='coupler', iterator=it, t0=0.0, sims=sims, mn=1 / 64, mx=1.0, models=ms))
        # a Coupler among the models of a Coupler (2 and 3 levels), also with a resize inside the inner Coupler, two solve calls
        for topo, ms, sims in (([[0, 1], 2], [A({}), B({}), C({})], [1.0]),
                               ([0, [1, [2, 0 + 3]]], [C({}), A({}), B({'3': [['grow', 0, 2]]}), A({})], [1.0, 0.5]),
                               ([[0, 1]], [A({'2': [['shrink', 0, 1]]}), B({})], [1.0])):
            out.append(dict(kind='layout-run', mode='dyadic', entry='nested', iterator=it, t0=0.0, sims=sims, mn=1 / 64, mx=1.0, models=ms, topology=topo))
        # an independent Coupler flattened / unflattened from inside the callbacks of a running one
        out.append(dict(kind='layout-run', mode='dyadic', entry='coupler+bystander', iterator=it, t0=0.0, sims=[1.0], mn=1 / 64, mx=1.0,
                        models=[A({}), B({})], bystander=[[[7], []], [[2]]]))
    # coarse minimum step, simulation time not a multiple of the step, t0 != 0
    for it in ('euler', 'rk4'):
        for mn in (1e-3, 4e-3, 0.05, 0.3):
            out.append(dict(kind='layout-run', mode='general', entry='model', iterator=it, t0=3.0, sims=[1.0], mn=mn, mx=1.0,
                            models=[dict(layout=[['f'], ['a', 2]], props=[1.0 / 20.1], resize={}, ravel=False)]))
    return out


def layout_run(case):
    import warnings
    with np.errstate(all='ignore'), warnings.catch_warnings():
        warnings.simplefilter('ignore')
        return _layout_run(case)


def _layout_run(case):
    """the real solver on a layout case; returns dict(err, bad, clock_bad, ends, hist, rec, ...)"""
    vlib.use_repo()
    from kawin.GenericModel import Coupler
    from kawin.solver.Solver import SolverType
    exact = case['mode'] == 'dyadic'
    log = {}
    t0 = case['t0']
    ms = [_mk_layout_model(j, sp, t0, exact, log, 'm%d' % j) for j, sp in enumerate(case['models'])]
    it = {'euler': SolverType.EXPLICITEULER, 'rk4': SolverType.RK4}[case['iterator']]
    out = dict(err=None, capped=False, ends=[], hist=[], rec=[], sizes_at_failure=None)

    class RecCoupler(Coupler):
        """public hooks only: the states the sub-models supplied at the start of each iteration (couplePreProcess) and the
        states (and the size bookkeeping) the Coupler delivered to the first right-hand-side call of that iteration"""
        def couplePreProcess(self):
            out['hist'].append([enc_state(m.X) for m in self.models])
            self._fresh = True

        def coupledXdt(self, t, x, dXdt):
            if getattr(self, '_fresh', False):
                self._fresh = False
                out['rec'].append((list(getattr(self, '_sizeRef', None) or []), [enc_state(xs) for xs in x],
                                   [float(v) for xs in x for xi in xs for v in np.ravel(np.asarray(xi, float))]))

    top = ms[0]
    cps = []
    if case.get('topology'):
        top = build_topology(case['topology'], ms, Coupler, couplers=cps)
        top.time = np.array([t0])
    elif case['entry'] != 'model':
        top = RecCoupler(ms)
        top.time = np.array([t0])
    out['by_bad'] = []
    if case.get('bystander'):
        from kawin.GenericModel import GenericModel
        by = Coupler([GenericModel() for _ in case['bystander']])
        bX = [[700.5 + 16 * j + i if not sh else (700.0 + 16 * j + i + 0.25 * np.arange(int(np.prod(sh)), dtype=float)).reshape(tuple(sh)) for i, sh in enumerate(shp)]
              for j, shp in enumerate(case['bystander'])]
        bflat = [None]

        def hook(where):
            # getdXdt: the bystander flattens (between the running coupler's flattenX and unflattenX calls);
            # postProcess: the bystander unflattens what it flattened before
            try:
                if where == 'getdXdt' or bflat[0] is None:
                    bflat[0] = by.flattenX(bX)
                else:
                    Y = by.unflattenX(bflat[0], bX)
                    same = len(Y) == len(bX) and all(cfp(a) == cfp(b) and all(np.array_equal(np.asarray(u, float), np.asarray(v, float)) for u, v in zip(a, b)) for a, b in zip(bX, Y))
                    if not same and len(out['by_bad']) < 2:
                        out['by_bad'].append('the independent Coupler did not get its own state back from unflattenX(flattenX(X), X) (called from %s of a leaf of the running one)' % where)
            except Exception as e:
                if len(out['by_bad']) < 2:
                    out['by_bad'].append('flattenX / unflattenX of the independent Coupler raised %s: %s (called from %s of a leaf of the running one)' % (type(e).__name__, e, where))
        ms[0].hook = hook
    tf = t0
    out['calls'] = []
    try:
        for sim in case['sims']:
            tstart = top.getCurrentX()[0]
            tf = tstart + sim
            n0 = len(ms[0].times)
            top.solve(sim, solverType=it, minDtFrac=case['mn'], maxDtFrac=case['mx'])
            out['ends'].append((float(tf), float(ms[0].times[-1]) if ms[0].times else float(tstart)))
            out['calls'].append((float(tstart), float(sim), n0, len(ms[0].times),
                                 [(float(getattr(m, 'initialTime', NAN)), float(getattr(m, 'deltaTime', NAN)), float(getattr(m, 'finalTime', NAN))) for m in ms]))
    except _Cap:
        out['capped'] = True
    except Exception as e:
        import traceback
        tb = traceback.extract_tb(e.__traceback__)
        where = next(('%s:%d' % (fr.filename.split('/')[-1], fr.lineno) for fr in reversed(tb) if '/kawin/' in fr.filename), '')
        out['err'] = '%s: %s%s' % (type(e).__name__, e, ' (at %s)' % where if where else '')
        if case['entry'] != 'model':
            out['sizes_at_failure'] = list(getattr(top, '_sizeRef', None) or [])
    out['npre'] = [m.npre for m in ms]
    out['inner_times'] = [np.asarray(q.time, float).tolist()[1:] for q in cps if q is not top]
    out['bad'] = [b for m in ms for b in m.bad]
    out['clock_bad'] = [b for m in ms for b in m.clock_bad]
    out['times'] = list(ms[0].times)
    out['sub_times'] = [list(m.times) for m in ms]
    out['applied'] = sum(m.applied for m in ms)
    out['callbacks'] = log.get('callbacks', 0)
    out['final_shapes'] = [[list(np.shape(x)) for x in m.X] for m in ms]
    return out


def layout_oracle(res, case, run):
    site = '%s-%s' % (case['entry'], case['iterator'])
    exact = case['mode'] == 'dyadic'
    desc = dict(case)
    if run['err']:
        res.violate('state-run-raised-' + site,
                    'the solver raised while handing the state to the callbacks (%d scripted resizes applied so far, %d accepted steps): %s' % (run['applied'], len(run['times']), run['err']),
                    desc, run['err'], 'the run completes')
        return
    if run['capped']:
        res.violate('no-termination-' + site, 'the run did not end within %d iterations' % CAP, desc, CAP, 'termination')
        return
    for b in run['bad'][:1]:
        if b[3] == 'structure':
            res.violate('callback-state-structure-' + case['entry'],
                        'callback %s of %s (after %d accepted steps) got a state with structure/shapes %s, the model supplied %s' % (b[1], b[0], b[2], b[4], b[5]), desc, b[4], b[5])
        else:
            res.violate('callback-state-content-' + case['entry'],
                        'callback %s of %s (after %d accepted steps) got the right shapes but other numbers than the model returned/advanced: %s, expected %s' % (
                            b[1], b[0], b[2], str(b[4])[:160], str(b[5])[:160]), desc, b[4], b[5])
    for b in run['clock_bad'][:1]:
        res.violate('clock-state-differs-from-time-' + site,
                    'the entry with derivative 1 that started at t0 was handed to %s of %s (after %d accepted steps) with value %r at time %r: the time does not equal '
                    'previous time + the step the iterator used for the state update' % (b[1], b[0], b[2], b[4], b[3]), desc, b[4], b[3])
    for k, (tf, tend) in enumerate(run['ends']):
        ok = tend == tf if exact else (abs(tend - tf) <= 4 * math.ulp(abs(tf)))
        if not ok:
            res.violate('end-time-not-reached-' + site, 'solve call %d ended at %r instead of %r' % (k + 1, tend, tf), desc, tend, tf)
            break
    prev = case['t0']
    for i, t in enumerate(run['times']):
        if not t > prev:
            res.violate('time-not-increasing-' + site, 'accepted time %d does not increase: %r after %r' % (i, t, prev), desc, [prev, t], 'strictly increasing')
            break
        prev = t
    if any(st != run['times'] for st in run['sub_times']):
        res.violate('coupler-submodel-steps', 'coupled models saw different accepted times', desc, [st[:4] for st in run['sub_times']], run['times'][:4])
    for b in run.get('by_bad', [])[:1]:
        res.violate('independent-coupler-disturbed-' + case['iterator'], b, desc, b, 'X')
    if case.get('topology') or case.get('bystander'):
        # the time / step contract for EVERY leaf of a nested run (all leaves saw the same accepted times: checked above)
        times = run['times']
        for k, (tstart, sim, n0, n1, info) in enumerate(run.get('calls', [])):
            seg = [tstart] + times[n0:n1]
            tol = 0.0 if exact else 8 * math.ulp(max(abs(tstart), abs(tstart + sim)))
            dts = [b - a for a, b in zip(seg, seg[1:])]
            for i, d in enumerate(dts):
                if d > case['mx'] * sim + tol:
                    res.violate('step-above-max-' + site, 'solve call %d: step %d = %r exceeds maxDtFrac*simTime = %r' % (k + 1, i, d, case['mx'] * sim), desc, d, '<= %r' % (case['mx'] * sim))
                    break
                if d < case['mn'] * sim - tol and i < len(dts) - 1:
                    res.violate('step-below-min-' + site, 'solve call %d: step %d = %r is below minDtFrac*simTime = %r and is not the last one' % (k + 1, i, d, case['mn'] * sim), desc, d,
                                '>= %r' % (case['mn'] * sim))
                    break
            if any(t > tstart + sim + tol for t in seg):
                res.violate('overshoot-' + site, 'solve call %d: an accepted time exceeds the end time %r' % (k + 1, tstart + sim), desc, max(seg), '<= %r' % (tstart + sim))
            for j, (ti, dt_, tf_) in enumerate(info):
                if not (ti == tstart and dt_ == sim and tf_ == tstart + sim):
                    res.violate('nested-leaf-timeinfo', 'solve call %d: leaf model %d was told (start, duration, end) = %r, the run is (%r, %r, %r)' % (k + 1, j, (ti, dt_, tf_), tstart, sim, tstart + sim),
                                desc, [ti, dt_, tf_], [tstart, sim, tstart + sim])
                    break
        if any(n != len(times) for n in run.get('npre', [])):
            res.violate('nested-leaf-preprocess-count', 'preProcess of the leaf models was called %s times, %d steps were accepted' % (run['npre'], len(times)), desc, run['npre'], len(times))
        for q in run.get('inner_times', []):
            if [float(t) for t in q] != times:
                res.violate('nested-coupler-inner-clock', 'the time record of a Coupler that is a sub-model of another Coupler does not hold the accepted times', desc, q[:5], times[:5])


def layout_cases(ctx, res, oracle_only, nmul=1):
    rng = ctx.rng
    N = ctx.n(140, 2500) * nmul
    cases = layout_witnesses() + [gen_layout_case(rng, force='resize' if k % 2 == 0 else None) for k in range(N)]
    cases += [gen_layout_case(rng, force='nested' if k % 4 else 'bystander') for k in range(ctx.n(60, 1000) * nmul)]
    lines, keep = [], []
    for c in cases:
        run = layout_run(c)
        nres = run['applied']
        res.case(('layout', c['entry'], c['iterator'], c['mode'], c['t0'], repr(c['sims']), c['mn'], c['mx'], repr(c['models'])), len(run['times']) >= 2)
        if c.get('topology'):
            res.count('layout-run:nested-depth:%d' % topo_depth(c['topology']))
        res.count('layout-run:' + c['entry']); res.count('layout-run:iter:' + c['iterator']); res.count('layout-run:solve-calls:%d' % len(c['sims']))
        res.count('layout-run:resizes-applied:' + ('0' if nres == 0 else '1' if nres == 1 else '2-3' if nres <= 3 else '>=4'))
        if c['mode'] == 'general':
            res.count('layout-run:minDtFrac:' + ('<=4e-3' if c['mn'] <= 4e-3 else '<=0.05' if c['mn'] <= 0.05 else '>0.05'))
        for m in c['models']:
            kinds = ''.join(sp[0] for sp in m['layout'])      # entry 0 is the (scalar) clock, so every non-empty layout has a scalar followed by an entry
            res.count('layout:' + ('scalars-only' if kinds and all(k in 'fn' for k in kinds) else 'scalar-then-array' if kinds[:1] in ('a', 'l', 'm') else
                                   'scalars-and-arrays-mixed' if any(k in 'alm' for k in kinds) else 'clock-only'))
        res.extra['callbacks_fingerprinted'] = res.extra.get('callbacks_fingerprinted', 0) + run['callbacks']
        layout_oracle(res, c, run)
        if c['entry'] == 'coupler' and run['hist']:
            # correspondence: the history of supplied states through the model Coupler (flat.hist)
            K = len(run['hist'])
            nm = len(c['models'])
            lines.append('flat.hist %d %s' % (K, ' '.join('%d %s' % (nm, ' '.join(h)) for h in run['hist'])))
            ent = []
            for k in range(K):
                if k < len(run['rec']):
                    sz, st, fl = run['rec'][k]
                    ent.append('%s %s %d %s' % (vlib.enc_ilist(sz), enc_list(fl), nm, ' '.join(st)))
                else:
                    ent.append('%s E' % vlib.enc_ilist(run['sizes_at_failure'] or []))
            keep.append((c, '%d %s' % (K, ' '.join(ent)), run))
    if ctx.driver_ok and not oracle_only and lines:
        outl = vlib.run_driver(PROP, lines)
        for (c, impl, run), line in zip(keep, outl):
            t = Toks(line)
            if not t.ok:
                res.disagree('flat.hist model error', c, 'ok', t.err); continue
            toks = t.t[1:]
            # the model also prints the flat vector it produced: same numbers as the delivered states, so the strings agree
            if ' '.join(toks) != impl:
                res.disagree('Coupler through a history of resizes: sizes on record / delivered states (first right-hand-side call of each iteration)',
                             dict(c, n_iterations=len(run['hist'])), impl[:400], ' '.join(toks)[:400])
            else:
                res.traces += 1
                res.count('resize-history-validated')


# ---------------------------------------------------------------- one Coupler object, a history of states (no solver)
def hist_cases(ctx, res, oracle_only, nmul=1):
    """ONE Coupler object is handed a history of differently sized states: flattenX, then unflattenX of that vector and of a
    second vector of the same length (what an iterator returns), state after state"""
    vlib.use_repo()
    from kawin.GenericModel import GenericModel, Coupler
    rng = ctx.rng
    lines, keep = [], []
    for _ in range(ctx.n(60, 1200) * nmul):
        nm = rng.choice([2, 2, 3])
        K = rng.choice([2, 3, 3, 5, 8])
        cp = Coupler([GenericModel() for _ in range(nm)])
        hist = []
        Xs = [gen_state(rng) for _ in range(nm)]
        for k in range(K):
            if k:
                # resize one or more sub-states: new random layout, or grow / shrink one array
                for j in range(nm):
                    r = rng.random()
                    if r < 0.35:
                        Xs[j] = gen_state(rng)
                    elif r < 0.7:
                        X = list(Xs[j])
                        arrs = [i for i, x in enumerate(X) if np.ndim(x) == 1]
                        if arrs:
                            i = rng.choice(arrs)
                            d = rng.choice([-2, -1, 1, 1, 2, 4])
                            X[i] = np.array(X[i][:d]) if d < 0 else np.concatenate([X[i], [rng.uniform(-2, 2) for _ in range(d)]])
                            if all(np.ndim(x) > 0 and np.size(x) == 0 for x in X):
                                X.append(0.5)
                        Xs[j] = X
            hist.append([list(X) for X in Xs])
        desc = dict(kind='coupler-hist', shapes=[[[list(np.shape(v)) for v in X] for X in H] for H in hist])
        ent, bad = [], None
        for k, H in enumerate(hist):
            try:
                flat = cp.flattenX(H)
                sizes = list(cp._sizeRef)
            except Exception as e:
                bad = (k, 'flattenX raised %s: %s' % (type(e).__name__, e)); ent.append('E'); break
            try:
                Ys = cp.unflattenX(flat, H)
            except Exception as e:
                Ys = None
                bad = bad or (k, 'unflattenX(flattenX(X), X) raised %s: %s' % (type(e).__name__, e))
            ent.append('%s %s %s' % (vlib.enc_ilist(sizes), enc_list(np.asarray(flat, float).tolist()),
                                     'E' if Ys is None else '%d %s' % (len(Ys), ' '.join(enc_state(y) for y in Ys))))
            if Ys is not None and bad is None:
                same = len(Ys) == len(H) and all(cfp(a) == cfp(b) and all(np.array_equal(np.asarray(u, float), np.asarray(v, float)) for u, v in zip(a, b)) for a, b in zip(H, Ys))
                if not same:
                    bad = (k, 'unflattenX(flattenX(X), X) is not X')
                else:
                    flat2 = np.asarray(flat, float) * 2.0 + 1.0
                    try:
                        Zs = cp.unflattenX(flat2, H)
                        if not all(cfp(a) == cfp(b) for a, b in zip(H, Zs)) or not np.array_equal(
                                np.concatenate([np.ravel(np.asarray(v, float)) for Z in Zs for v in Z] + [np.zeros(0)]), flat2):
                            bad = (k, 'a vector of the same length is not cut into the supplied shapes in order')
                    except Exception as e:
                        bad = (k, 'unflattenX raised on a vector of the same length: %s: %s' % (type(e).__name__, e))
        res.case(('hist', repr(desc['shapes'])), True)
        res.count('coupler-history:states:%d' % K)
        if bad:
            res.violate('coupler-roundtrip-after-resize',
                        'one Coupler, history of %d differently sized states: at state %d %s (sub-state shapes %s, before: %s)' % (
                            K, bad[0], bad[1], desc['shapes'][bad[0]], desc['shapes'][bad[0] - 1] if bad[0] else None), dict(desc, failing_state=bad[0]), bad[1], 'X')
        if len(ent) == K:
            lines.append('flat.hist %d %s' % (K, ' '.join('%d %s' % (nm, ' '.join(enc_state(X) for X in H)) for H in hist)))
            keep.append((desc, '%d %s' % (K, ' '.join(ent))))
    if ctx.driver_ok and not oracle_only and lines:
        for (desc, impl), line in zip(keep, vlib.run_driver(PROP, lines)):
            t = Toks(line)
            got = ' '.join(t.t[1:]) if t.ok else 'err ' + str(t.err)
            if got != impl:
                res.disagree('one Coupler, history of states: sizes on record, flat vector, round trip', desc, impl[:400], got[:400])



# ====================================================================== nested couplers, several couplers alive at once
# A Coupler is a GenericModel, so it can be one of the models of another Coupler.  Cases: a FOREST of 1-3 model trees of depth
# 1-3 (Couplers over leaf models with differently shaped states from the leaf generator above), all alive at the same time,
# and a sequence of operations on them in any interleaving:
#   F i  flattenX of tree i (the vector is kept)      U i  unflattenX of the kept vector by tree i's state
#   V i  unflattenX of ANOTHER vector of that length (2*v+1: what an iterator returns; sometimes longer / shorter)
# Every leaf entry carries its own distinguishable numbers (tree, leaf, entry, element), so that a value delivered to the wrong
# leaf is seen.  The same sequence goes through the model (KawinV.Flatten.runOps: Couplers are objects with an identity, the
# `_sizeRef` attributes live in a heap; theorems nested_unflatten_flatten, runOps_roundtrip, unflattenT_shapes).  A few cases use
# the SAME Coupler object twice (in two trees / twice in one tree) with differently sized states: there the sizes ARE shared
# (one object), the round trip is not required, and implementation and model must still agree — this ties the identity/heap
# semantics (and with it the shared-size-list model of theorem shared_sizes_break_nesting) to Python's.
def _shape_list(rng, ravel):
    return [list(np.shape(x)) for x in gen_state(rng, allow_nd=ravel)]


def gen_objtree(rng, depth, counter, pool, alias):
    """['N', id, [children]] with children ['L', ravel, shapes] or nodes; depth = levels of Couplers"""
    kids = []
    for _ in range(rng.choice([1, 2, 2, 2, 3])):
        if depth > 1 and rng.random() < 0.6:
            if alias and pool and rng.random() < 0.5:
                kids.append(_restate(rng, rng.choice(pool)))        # the same Coupler OBJECT again, other states
            else:
                kids.append(gen_objtree(rng, depth - 1, counter, pool, alias))
        else:
            ravel = rng.random() < 0.3
            kids.append(['L', ravel, _shape_list(rng, ravel)])
    if depth > 1 and all(k[0] == 'L' for k in kids) and rng.random() < 0.7:
        kids[rng.randrange(len(kids))] = gen_objtree(rng, depth - 1, counter, pool, alias)
    counter[0] += 1
    t = ['N', counter[0], kids]
    pool.append(t)
    return t


def _restate(rng, t):
    """the same objects (ids, leaf kinds), new leaf state shapes"""
    if t[0] == 'L':
        return ['L', t[1], _shape_list(rng, t[1])]
    return ['N', t[1], [_restate(rng, k) for k in t[2]]]


def tree_ids(t):
    return [] if t[0] == 'L' else [t[1]] + [i for k in t[2] for i in tree_ids(k)]


def tree_depth(t):
    return 0 if t[0] == 'L' else 1 + max([tree_depth(k) for k in t[2]] + [0])


def tree_leaves(t):
    return [t] if t[0] == 'L' else [l for k in t[2] for l in tree_leaves(k)]


def gen_nested_case(rng):
    alias = rng.random() < 0.12
    counter, pool, forest = [0], [], []
    for _ in range(rng.choice([1, 2, 2, 2, 3])):
        if alias and pool and rng.random() < 0.5:
            forest.append(_restate(rng, rng.choice([t for t in pool])))
        else:
            forest.append(gen_objtree(rng, rng.choice([1, 2, 2, 3]), counter, pool, alias))
    n = len(forest)
    ops = []
    style = rng.choice(['pairs', 'interleaved', 'interleaved', 'random'])
    if style == 'pairs':
        for i in rng.sample(range(n), n):
            ops += [['F', i], ['U', i]]
    elif style == 'interleaved':       # flattenX of every tree first, then the unflattenX calls (the order an outer loop over models gives)
        order = rng.sample(range(n), n)
        ops += [['F', i] for i in order]
        ops += [[rng.choice(['U', 'U', 'V']), i] for i in rng.sample(range(n), n)]
        ops += [['U', order[0]]]
    for _ in range(rng.choice([0, 2, 4, 6]) if style != 'random' else rng.choice([4, 7, 10])):
        ops.append([rng.choice(['F', 'F', 'U', 'U', 'V']), rng.randrange(n)])
    for o in ops:
        if o[0] == 'V':
            o.append(rng.choice([0, 0, 0, 0, 2, -1]))       # length of the vector relative to the tree's own
    return dict(kind='nested-flat', forest=forest, ops=ops)


def nested_witnesses():
    """fixed cases that run first on every run: the topologies of theorem shared_sizes_break_nesting /
    shared_sizes_break_interleaving and a depth-3 tree"""
    a = ['L', False, [[], [3]]]; b = ['L', False, [[4], [], [2]]]; c = ['L', True, [[2, 5]]]; d = ['L', False, [[]]]
    return [dict(kind='nested-flat', forest=[['N', 1, [['N', 2, [a, b]], c]]], ops=[['F', 0], ['U', 0], ['V', 0, 0]]),
            dict(kind='nested-flat', forest=[['N', 1, [['N', 2, [a, b]]]]], ops=[['F', 0], ['U', 0]]),
            dict(kind='nested-flat', forest=[['N', 1, [c, ['N', 2, [a, ['N', 3, [b, d]]]]]]], ops=[['F', 0], ['U', 0], ['V', 0, 0]]),
            dict(kind='nested-flat', forest=[['N', 1, [a, b]], ['N', 2, [c, d]]], ops=[['F', 0], ['F', 1], ['U', 0], ['U', 1]]),
            dict(kind='nested-flat', forest=[['N', 1, [['N', 2, [a, d]], b]], ['N', 3, [d, ['N', 4, [c, a]]]]],
                 ops=[['F', 0], ['F', 1], ['U', 0], ['V', 1, 0], ['F', 0], ['U', 1], ['U', 0]])]


def _tagged_state(t, tag):
    """the state of a (sub)tree as the Python nested list, every entry with its own few-bit dyadic numbers"""
    if t[0] == 'L':
        tag[0] += 1
        X = []
        for e, sh in enumerate(t[2]):
            base = 32.0 * tag[0] + 4.0 * e
            X.append(base + 0.5 if not sh else (base + 0.25 * np.arange(int(np.prod(sh)), dtype=float) + 1.0).reshape(tuple(sh)))
        return X
    return [_tagged_state(k, tag) for k in t[2]]


def _enc_tree(t, X):
    if t[0] == 'L':
        return 'L ' + enc_state(X)
    return 'N %d %d %s' % (t[1], len(X), ' '.join(_enc_tree(k, x) for k, x in zip(t[2], X))) if len(X) else 'N %d 0' % t[1]


def _same_tree(t, X, Y):
    """Y is X: same nesting, per leaf same structure / shapes / numbers.  Returns None or (leaf path, what)"""
    if t[0] == 'L':
        if not isinstance(Y, (list, tuple)) or cfp(Y) != cfp(X):
            return ('structure', repr(cfp(Y)), repr(cfp(X)))
        if not all(np.array_equal(np.asarray(u, float), np.asarray(v, float)) for u, v in zip(X, Y)):
            return ('values', [np.asarray(v, float).tolist() for v in Y], [np.asarray(v, float).tolist() for v in X])
        return None
    if not isinstance(Y, (list, tuple)) or len(Y) != len(t[2]):
        return ('structure', 'Coupler %d returned %s sub-states' % (t[1], len(Y) if isinstance(Y, (list, tuple)) else type(Y).__name__), '%d sub-models' % len(t[2]))
    for k, x, y in zip(t[2], X, Y):
        r = _same_tree(k, x, y)
        if r:
            return r
    return None


def run_nested_flat(case):
    """the operations on the real classes.  Returns (impl answer string or None, list of oracle findings)"""
    vlib.use_repo()
    from kawin.GenericModel import GenericModel, Coupler
    objs = {}

    def leafmodel(ravel):
        m = GenericModel()
        if ravel:
            m.flattenX = lambda X: np.concatenate([np.ravel(np.asarray(xi, float)) for xi in X])
        return m

    def build(t):
        if t[0] == 'L':
            return leafmodel(t[1])
        if t[1] not in objs:
            objs[t[1]] = Coupler([build(k) for k in t[2]])
        return objs[t[1]]
    forest = case['forest']
    tops = [build(t) for t in forest]
    tag = [0]
    Xs = [_tagged_state(t, tag) for t in forest]
    ids_all = [i for t in forest for i in tree_ids(t)]
    distinct = len(set(ids_all)) == len(ids_all)
    kept = [None] * len(forest)
    since = [set() for _ in forest]       # trees flattened since tree i was flattened
    outs, finds = [], []
    for k, op in enumerate(case['ops']):
        i = op[1]
        t, top, X = forest[i], tops[i], Xs[i]
        cls = 'nested-coupler' if tree_depth(t) >= 2 else 'interleaved-couplers' if since[i] else 'coupler'
        if op[0] == 'F':
            try:
                flat = np.asarray(top.flattenX(X), float)
            except Exception as e:
                finds.append(('%s-flattenX-raised' % cls, 'operation %d: flattenX of tree %d raised %s: %s' % (k, i, type(e).__name__, e), repr(e), 'no exception'))
                return None, finds
            kept[i] = flat
            since[i] = set()
            for j in range(len(forest)):
                if j != i:
                    since[j].add(i)
            sizes = [getattr(objs[c], '_sizeRef', None) for c in tree_ids(t)]
            outs.append('F %s %d %s' % (enc_list(flat.tolist()), len(sizes), ' '.join('N' if z is None else vlib.enc_ilist(z) for z in sizes)))
            if distinct:
                tot = int(sum(int(np.prod(sh)) for l in tree_leaves(t) for sh in l[2]))
                rs = getattr(top, '_sizeRef', None)
                if flat.ndim != 1 or len(flat) != tot or (rs is not None and sum(rs) != tot):
                    finds.append(('%s-sizeref' % cls, 'operation %d: flattenX of tree %d gave a vector of shape %s and sizes %s on record, the state has %d numbers' % (
                        k, i, flat.shape, rs, tot), [list(flat.shape), rs], tot))
            continue
        if op[0] == 'U':
            if kept[i] is None:
                outs.append('B'); continue
            v = kept[i]
        else:
            tot = int(sum(int(np.prod(sh)) for l in tree_leaves(t) for sh in l[2]))
            base = kept[i] if kept[i] is not None and len(kept[i]) == tot else np.arange(tot, dtype=float)
            v = base * 2.0 + 1.0
            v = np.concatenate([v, [7.5] * op[2]]) if op[2] > 0 else v[:max(0, tot + op[2])]
        try:
            Y = top.unflattenX(v, X)
            err = None
        except Exception as e:
            Y, err = None, '%s: %s' % (type(e).__name__, e)
        outs.append('U E' if Y is None else 'U ' + _enc_tree(t, Y))
        if not distinct or kept[i] is None:
            continue      # same object twice: shared by construction; never flattened: AttributeError is the expected answer
        what = 'unflattenX(flattenX(X), X)' if op[0] == 'U' else 'unflattenX(v, X) for another vector v of %s length' % (
            'the same' if op[2] == 0 else 'greater' if op[2] > 0 else 'smaller')
        ctx_txt = ' (flattenX of tree(s) %s was called in between)' % sorted(since[i]) if since[i] else ''
        if op[0] == 'V' and op[2] < 0:
            continue      # too short: may fail
        if Y is None:
            finds.append(('%s-flatten-roundtrip' % cls if op[0] == 'U' else '%s-unflatten-raised' % cls,
                          'operation %d: %s of tree %d raised %s%s' % (k, what, i, err, ctx_txt), err, 'the state as supplied'))
            continue
        if op[0] == 'U':
            r = _same_tree(t, X, Y)
            if r:
                finds.append(('%s-flatten-roundtrip' % cls, 'operation %d: %s of tree %d is not X%s: %s %s, supplied %s' % (k, what, i, ctx_txt, r[0], str(r[1])[:200], str(r[2])[:200]),
                              r[1], r[2]))
        else:
            # same nesting and shapes as supplied, numbers of v in order
            def shp(t, Y):
                if t[0] == 'L':
                    return cfp(Y) if isinstance(Y, (list, tuple)) else ('not-a-list',)
                return tuple(shp(k, y) for k, y in zip(t[2], Y)) + (len(Y),) if isinstance(Y, (list, tuple)) else ('not-a-list',)
            if shp(t, Y) != shp(t, X):
                finds.append(('%s-unflatten-structure' % cls, 'operation %d: %s of tree %d has not the structure / shapes supplied%s' % (k, what, i, ctx_txt), repr(shp(t, Y)), repr(shp(t, X))))
            else:
                def flatvals(t, Y):
                    if t[0] == 'L':
                        return [float(z) for y in Y for z in np.ravel(np.asarray(y, float))]
                    return [z for k, y in zip(t[2], Y) for z in flatvals(k, y)]
                tot = len(flatvals(t, X))
                if flatvals(t, Y) != [float(z) for z in v[:tot]]:
                    finds.append(('%s-unflatten-values' % cls, 'operation %d: %s of tree %d does not hand the numbers of v to the leaves in order%s' % (k, what, i, ctx_txt),
                                  flatvals(t, Y)[:8], [float(z) for z in v[:8]]))
    return '%d %s' % (len(outs), ' '.join(outs)), finds


def _nested_line(case):
    """protocol line of a nested-flat case (the V vectors are computed as run_nested_flat computes them)"""
    forest = case['forest']
    tag = [0]
    Xs = [_tagged_state(t, tag) for t in forest]
    kept = [None] * len(forest)
    ops = []
    for op in case['ops']:
        i = op[1]
        tot = int(sum(int(np.prod(sh)) for l in tree_leaves(forest[i]) for sh in l[2]))
        if op[0] == 'F':
            kept[i] = np.array([float(z) for l, x in zip(tree_leaves(forest[i]), _leaf_states(forest[i], Xs[i])) for y in x for z in np.ravel(np.asarray(y, float))])
            ops.append('F %d' % i)
        elif op[0] == 'U':
            ops.append('U %d' % i)
        else:
            base = kept[i] if kept[i] is not None and len(kept[i]) == tot else np.arange(tot, dtype=float)
            v = base * 2.0 + 1.0
            v = np.concatenate([v, [7.5] * op[2]]) if op[2] > 0 else v[:max(0, tot + op[2])]
            ops.append('V %d %s' % (i, enc_list(v.tolist())))
    return 'flat.nest %d %s %d %s' % (len(forest), ' '.join(_enc_tree(t, X) for t, X in zip(forest, Xs)), len(ops), ' '.join(ops))


def _leaf_states(t, X):
    return [X] if t[0] == 'L' else [l for k, x in zip(t[2], X) for l in _leaf_states(k, x)]


def nested_flat_cases(ctx, res, oracle_only, nmul=1):
    rng = ctx.rng
    cases = nested_witnesses() + [gen_nested_case(rng) for _ in range(ctx.n(220, 4000) * nmul)]
    lines, keep = [], []
    for c in cases:
        ids_all = [i for t in c['forest'] for i in tree_ids(t)]
        distinct = len(set(ids_all)) == len(ids_all)
        impl, finds = run_nested_flat(c)
        dmax = max(tree_depth(t) for t in c['forest'])
        res.case(('nested-flat', repr(c['forest']), repr(c['ops'])), len(c['ops']) >= 2)
        res.count('nested-flat:depth:%d' % dmax); res.count('nested-flat:trees:%d' % len(c['forest']))
        res.count('nested-flat:' + ('distinct-objects' if distinct else 'same-object-twice'))
        for key, what, obs, req in finds[:2]:
            res.violate(key, what, c, obs, req)
        if impl is not None:
            lines.append(_nested_line(c)); keep.append((c, impl))
    if ctx.driver_ok and not oracle_only and lines:
        for (c, impl), line in zip(keep, vlib.run_driver(PROP, lines)):
            t = Toks(line)
            got = ' '.join(t.t[1:]) if t.ok else 'err ' + str(t.err)
            if got != impl:
                res.disagree('forest of nested couplers, interleaved flattenX / unflattenX: flat vectors, sizes on record per Coupler, delivered trees', c, impl[:500], got[:500])
            else:
                res.count('nested-flat-validated')


# ====================================================================== corr
def corr(ctx, oracle_only=False, nmul=1):
    res = Result()
    res.rule = ('user models with scripted step proposals (0, negatives, +-inf, NaN, huge/tiny, ints, NumPy scalars, fractions of the span) and stop schedules, '
                't0 != 0, dyadic and general doubles, min/max fractions incl. > 1, both iterators, plain and through a custom iterator wrapper, entry points '
                'GenericModel.solve / Coupler of 2-3 models / DESolver directly; nested states of scalars, 1-D (also empty) and N-D arrays; '
                'every model carries an f = 1 clock entry (state must equal the time bit for bit at every callback); '
                'layout/resize runs: lists mixing floats, NumPy scalars, arrays, nested lists, 2-D arrays in every order, alone and 2-3 coupled, 1-3 solve calls, '
                'min step fractions 1e-8 ... 0.3 (incl. 1e-3, 2e-3, 4e-3), simulation times that are not multiples of the step, t0 != 0, scripted resizes in postProcess '
                '(grow/shrink at either end, entries appearing/disappearing), content of every callback argument compared with the per-entry constant-derivative prediction; '
                'one Coupler object through histories of 2-8 differently sized states; '
                'nested couplers: forests of 1-3 model trees of depth 1-3 with tagged leaf states under interleaved flattenX/unflattenX/unflattenX-of-another-vector operations '
                '(through the real classes and through KawinV.Flatten.runOps), some with the same Coupler object used twice; solver runs on nested topologies of 2-5 leaves '
                '(scripted proposals/stops and layout/resize runs with content checks), also with an independent Coupler used from inside the callbacks; '
                'non-trivial = at least 2 accepted steps; distinct = (entry, iterator, config, script)')
    rng = ctx.rng
    N = ctx.n(500, 12000) * nmul
    cases, lines = [], []
    todo = witnesses() + [None] * N
    for c in todo:
        c = c or gen_case(rng)
        props, stops = effective_script(c)
        c['_eff'] = (props, stops)
        cases.append(c)
        lines.append('sol.runx %s %s %s %s %s %d %s %d %s %s' % (f2b(c['t0']), f2b(c['t0'] + c['sim']), f2b(c['mn']), f2b(c['mx']),
                                                                 enc_list(props), len(stops), ' '.join(vlib.enc_bool(s) for s in stops), CAP + 1,
                                                                 'E' if c['iterator'] == 'euler' else 'R', f2b(c['t0'])))
    lines = [' '.join(l.split()) for l in lines]
    model = vlib.run_driver(PROP, lines) if (ctx.driver_ok and not oracle_only) else None
    for k, c in enumerate(cases):
        run = real_run(c)
        desc = describe(c)
        times = run['times']
        props, stops = c['_eff']
        res.case((c['entry'], c['iterator'], c['t0'], c['sim'], c['mn'], c['mx'], repr(props), repr(stops)), len(times) >= 2)
        res.count('entry:' + c['entry']); res.count('iter:' + c['iterator'] + ('+wrapper' if c['wrap'] else '')); res.count('mode:' + c['mode'])
        for v in props:
            res.count('proposal:' + ('nan' if math.isnan(v) else '+inf' if v == INF else '-inf' if v == -INF else 'zero' if v == 0 else 'negative' if v < 0 else 'positive'))
        res.count('steps:' + ('0' if not times else '1' if len(times) == 1 else '2-9' if len(times) < 10 else '10-99' if len(times) < 100 else '>=100'))
        res.extra['callbacks_fingerprinted'] = res.extra.get('callbacks_fingerprinted', 0) + run.get('callbacks', 0)
        if len(res.samples) < 3 and len(times) >= 2:
            res.sample(dict(desc, accepted_times=times[:8], n_steps=len(times)))
        oracle(res, c, run, desc)
        if model is not None and not run['err']:
            t = Toks(model[k])
            if not t.ok:
                res.disagree('sol.run model error', desc, 'ok', t.err); continue
            n = t.nat(); mstop = t.bool(); mcur = t.flt(); t.flt(); mtimes = t.flts(); mdts = t.flts(); mclk = t.flts()
            if run['capped']:
                if n <= CAP:
                    res.disagree('implementation did not terminate, model did', desc, 'capped at %d' % CAP, n)
                continue
            lim = 0 if c['mode'] == 'dyadic' else 4
            if n != len(times):
                # general doubles: an extra one-ulp step at the end is a rounding artefact on either side
                res.disagree('number of accepted steps', desc, len(times), n)
            elif any(ulps(a, b) > lim for a, b in zip(times, mtimes)):
                i = next(i for i, (a, b) in enumerate(zip(times, mtimes)) if ulps(a, b) > lim)
                res.disagree('accepted time %d' % i, desc, times[max(0, i - 1):i + 2], mtimes[max(0, i - 1):i + 2])
            else:
                res.traces += 1
                # the state of the f = 1 entry after every accepted step: the loop with the state carried along (runXs)
                clk = run.get('clocks') or []
                if c.get('clock') and len(clk) == len(mclk) and all(v is not None for v in clk):
                    if any(ulps(a, b) > lim for a, b in zip(clk, mclk)):
                        i = next(i for i, (a, b) in enumerate(zip(clk, mclk)) if ulps(a, b) > lim)
                        res.disagree('state of the f = 1 entry after accepted step %d' % i, desc, clk[max(0, i - 1):i + 2], mclk[max(0, i - 1):i + 2])
                    else:
                        res.count('clock-trace-validated')
            if run['seen'] and len(run['seen']) == len(mdts):
                if any(ulps(float(s[1]), d) > lim for s, d in zip(run['seen'], mdts)):
                    res.disagree('step sizes seen by the iterator wrapper', desc, [float(s[1]) for s in run['seen']][:6], mdts[:6])
            kstop = next((i for i, s in enumerate(stops) if s), None)
            impl_stopped = kstop is not None and len(times) == kstop + 1
            if impl_stopped != mstop and n == len(times):
                res.disagree('stop flag at the end', desc, impl_stopped, mstop)
    flatten_cases(ctx, res, oracle_only)
    layout_cases(ctx, res, oracle_only, nmul)
    hist_cases(ctx, res, oracle_only, nmul)
    nested_flat_cases(ctx, res, oracle_only, nmul)
    return res


def search(ctx, broken):
    return corr(ctx, oracle_only=True, nmul=3)


def _replay_flatten(c):
    """round trip on a state with the recorded structure (values do not matter for the layout)"""
    vlib.use_repo()
    from kawin.GenericModel import GenericModel, Coupler

    def mk(shp):
        # distinct numbers everywhere, so that a value read from another slot is seen
        return [0.5 + 7 * i if not s else (np.arange(int(np.prod(s)), dtype=float) + 1.5 + 100 * i).reshape(tuple(s)) for i, s in enumerate(shp)]

    def model(ravel):
        m = GenericModel()
        if ravel:
            m.flattenX = lambda X: np.concatenate([np.ravel(np.asarray(xi, float)) for xi in X])
        return m
    same = lambda X, Y: fingerprint(X) == fingerprint(Y) and all(np.array_equal(np.asarray(u, float), np.asarray(v, float)) for u, v in zip(X, Y))
    try:
        if c['kind'] in ('flatten-c', 'flatten-cu'):
            Xs = [mk(s) for s in c['shapes']]
            cp = Coupler([model(r) for r in c['ravel']])
            flat = cp.flattenX(Xs)
            Ys = cp.unflattenX(flat, Xs)
            ok = np.ndim(flat) == 1 and sum(cp._sizeRef) == len(flat) and len(Ys) == len(Xs) and all(same(a, b) for a, b in zip(Xs, Ys))
        else:
            X = mk(c['shapes'])
            m = model(c['ravel'])
            flat = m.flattenX(X)
            ok = np.ndim(flat) == 1 and same(X, m.unflattenX(flat, X))
    except Exception as e:
        print('   raised', type(e).__name__, e)
        ok = False
    if not ok:
        print('   round trip fails for structure', c['shapes'])
    return ok


def _replay_hist(c):
    """one Coupler object through the recorded history of state shapes"""
    vlib.use_repo()
    from kawin.GenericModel import GenericModel, Coupler
    hist = c['shapes']
    cp = Coupler([GenericModel() for _ in hist[0]])
    ok = True
    for k, H in enumerate(hist):
        Xs = [[0.5 + i + 10 * j if not s else (np.arange(int(np.prod(s)), dtype=float) + 1.5 + 10 * j).reshape(tuple(s)) for i, s in enumerate(shp)] for j, shp in enumerate(H)]
        try:
            Ys = cp.unflattenX(cp.flattenX(Xs), Xs)
            same = all(cfp(a) == cfp(b) and all(np.array_equal(np.asarray(u, float), np.asarray(v, float)) for u, v in zip(a, b)) for a, b in zip(Xs, Ys))
        except Exception as e:
            print('   state %d: raised %s: %s' % (k, type(e).__name__, e)); same = False
        if not same:
            print('   state %d of the history (shapes %s) is not handed back as supplied' % (k, H)); ok = False
            break
    return ok


def replay(ctx, entry):
    c = entry['violation']['case']
    if str(c.get('kind', '')).startswith('flatten'):
        return _replay_flatten(c)
    if c.get('kind') == 'coupler-hist':
        return _replay_hist(c)
    if c.get('kind') == 'nested-flat':
        _, finds = run_nested_flat(c)
        for f in finds:
            print('  ', f[0], f[1][:300])
        return not finds
    if c.get('kind') == 'layout-run':
        res = Result()
        layout_oracle(res, c, layout_run(c))
        for v in res.violations:
            print('  ', v['key'], v['what'][:300])
        return not res.violations
    conv = lambda s: float(s) if not s.startswith('np.') else float(s.split('(')[1].rstrip(')'))
    rng = ctx.rng
    nm = len(c['proposals'])
    X0 = []
    for shp in c['state_shapes']:
        X0.append([1.5 if not s else np.ones(tuple(s)) for s in shp])
        if c.get('clock') and c['entry'] != 'desolver':
            X0[-1][-1] = float(c['t0'])
    case = dict(clock=bool(c.get('clock')), mode=c['mode'], t0=c['t0'], sim=c['sim'], mn=c['mn'], mx=c['mx'], entry=c['entry'], iterator=c['iterator'], wrap=c['wrap'],
                props=[[conv(v) for v in p] for p in c['proposals']], stops=c['stops'], ravel=c['ravel'], X0=X0, dkind=c['dkind'])
    if 'topology' in c:
        case['topology'] = c['topology']
    res = Result()
    oracle(res, case, real_run(case), describe(case))
    for v in res.violations:
        print('  ', v['key'], v['what'])
    return not res.violations
