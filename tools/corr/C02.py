"""C02 — reported statistics are moments of the PSD; density changes only by nucleation and loss
through the grid ends.  Every accepted step of real runs is replayed through the Lean model
(solver update -> _processX -> UpdatePBMEuler) and the budget is evaluated on the logged values."""
import math
import numpy as np
import vlib, kwnruns, kwnfull
from vlib import Result, enc_list, f2b, Toks, close

PROP = 'C02'
META = {
    'level_text': 'Lean 4 theorems, for every state, face-flux field, step size and grid size: recorded density / mean radius / fraction are the moments M0, M1/M0, min(c*M3,1) of the state of that step; the stored PSD is the truncation of that state (non-negative whatever the state, at most one particle per class removed, no moment increased); the accepted update changes the total number by exactly dt*(J0 - Jn + nucRate) with J0 <= 0 <= Jn, so it grows by at most nucRate*dt and not at all without nucleation; zeroing and extension steps never increase it. Each accepted step of real Al-Zr runs (Euler and RK4, adaptive re-meshing configuration, split solves) is replayed through the compiled model and the budget predicate is evaluated on the logged implementation values. The re-mesh clause is false of the code (known finding) and is excluded from the theorem (`density_step_partial`). The composed KWN step (KawinV.KWNFull, both iterators) reproduces transport, correction, truncation, extension / re-mesh and the recorded statistics of every accepted step of real runs from the entry state and the captured backend answers; anyStep_good / runSteps_good: the stored distributions stay non-negative and the grids consistent after every step of every run.',
    'level_note': 'Trusted: Lean kernel + Mathlib (standard axioms); hand models KawinV.PSD/KawinV.PBM/KawinV.MB equal the code as far as compared on this run; call order inside a KWN step observed by run-time wrappers; exact-field vs IEEE (rtol 1e-9 scaled by the summed magnitudes). Re-mesh steps: number density is not preserved by changeSizeClasses (finding, not proved).',
    'technique': 'Lean 4 proof (telescoping budget + order lemmas) + trace refinement of real runs against the model',
    'design_ref': 'DESIGN.md section 6, C02',
}
LEAN_MODULES = ['KawinV.Props.C02', 'KawinV.Props.KWNFull']
RUN_ERRORS = []
MONITORED = ['RK4 glue: the accepted update uses the corrected face fluxes of the LAST stage evaluation only (observed; the budget theorem covers any face fluxes)']
ASSUMPTIONS = ['stored distributions are non-negative at the start of a step (proved: trunc_nonneg)']
TRUSTED = ['run-time wrappers of tools/lib/kwnruns.py']


def runs(ctx):
    out = []
    def go(tag, model, times, solver, cap=None):
        import traceback
        log = kwnruns.instrument(model)
        try:
            for t in times:
                kwnruns.run(model, t, solver, max_steps=cap)
        except Exception:
            RUN_ERRORS.append((tag, traceback.format_exc()))
        out.append((tag, model, log, solver))
    # mild perturbations only: the configuration must precipitate (and re-mesh) within the simulated time
    T = 723.15 - ctx.rng.uniform(0, 4)
    x0 = 4e-3 * ctx.rng.uniform(1.0, 1.08)
    # baseline composition/temperature on a coarse grid known to extend and re-mesh; only the split into solve calls varies
    h1 = ctx.rng.uniform(2, 12)
    go('AlZr/euler/remeshing-grid/2-solves', kwnruns.build_binary(bins=30, minBins=20, maxBins=40), [3600 * h1, 3600 * (25 - h1)], 'euler')
    # precipitate molar volume different from the matrix one (the volume ratio must scale fraction and content alike)
    go('AlZr/rk4/vratio', kwnruns.build_binary(x0=x0, T=T, vratio=ctx.rng.choice([0.9, 0.9688, 1.2])), [3600.0 * 2], 'rk4', 120 if not ctx.thorough else 1200)
    # pre-existing bimodal distribution in a supersaturated matrix: a minor population of small fast-growing particles while
    # the coarse ones set the time step -> the face-wise limiter of the step correction is active on the growth side
    go('AlZr/euler/loaded-bimodal/vratio', kwnruns.build_loaded_binary(ctx.rng, vratio=ctx.rng.choice([0.9, 0.9688, 1.2])), [600.0, 600.0], 'euler')
    go('NiCrAl/euler/small-grid', kwnruns.build_ternary(bins=20, minBins=10, maxBins=30), [4.0, 6.0], 'euler', 250)
    # a minimum radius of the constraints ABOVE the precipitate's Rmin (both default to 3e-10 m): whole classes lie between the two
    # thresholds, the nuclei pass through them, and what is counted in the rows must be what is kept in the distribution
    mr = kwnruns.build_binary(x0=x0, T=T, bins=150, minBins=100, maxBins=200)
    mr.setConstraints(minRadius=ctx.rng.uniform(4.0e-10, 4.6e-10))
    go('AlZr/euler/minRadius-above-Rmin', mr, [3600.0 * 5], 'euler', 160 if not ctx.thorough else 1500)
    if ctx.thorough:
        go('AlZr/euler/default-grid', kwnruns.build_binary(x0=x0, T=T), [3600 * 50.0], 'euler')
        go('AlZr/euler/fixed-grid', kwnruns.build_binary(x0=x0, T=T, adaptive=False), [3600 * 20.0], 'euler')
        go('AlZr/euler/coarse-remesh', kwnruns.build_binary(x0=x0, T=T, bins=24, minBins=16, maxBins=30), [3600 * 100.0], 'euler')
        go('NiCrAl/euler', kwnruns.build_ternary(), [2000.0], 'euler', 600)
    return out


def synthetic_remesh(ctx, res):
    """PBM level: number density across changeSizeClasses (the re-mesh clause of C02)"""
    vlib.use_repo()
    from kawin.precipitation.PopulationBalance import PopulationBalanceModel
    for _ in range(ctx.n(60, 600)):
        r = np.random.default_rng(ctx.rng.getrandbits(32))
        n = int(r.integers(20, 240)); cmin = 1e-10
        pbm = PopulationBalanceModel(cMin=cmin, cMax=cmin * 100, bins=n, minBins=n // 2, maxBins=2 * n)
        mu = r.uniform(0.1, 0.8) * n
        pbm.PSD = 1e20 * np.exp(-0.5 * ((np.arange(n) - mu) / max(1.0, r.uniform(0.02, 0.2) * n)) ** 2)
        pbm.PSD[pbm.PSD < 1] = 0
        m0, m3 = pbm.ZeroMoment(), pbm.ThirdMoment()
        newn = int(r.integers(10, 300))
        top = np.amax(pbm.PSDbounds[1:][pbm.PSD > 1]) if r.random() < 0.5 else pbm.PSDbounds[-1]
        pbm.changeSizeClasses(pbm.PSDbounds[0], top, newn)
        m0b, m3b = pbm.ZeroMoment(), pbm.ThirdMoment()
        res.case(('synthetic-remesh', n, newn, round(mu, 3)), True); res.count('synthetic-remesh')
        case = dict(kind='PopulationBalanceModel.changeSizeClasses', bins=n, newbins=newn, M0_before=m0, M0_after=m0b, M3_before=m3, M3_after=m3b)
        if m3b != 0 and not close(m0, m0b, 1e-6):
            res.violate('remesh-changes-number-density', 'changeSizeClasses preserves the third moment but changes the number density '
                        '(%+.2e relative) with zero nucleation' % ((m0b - m0) / m0), case, m0b, m0)


def synthetic_multiphase(ctx, res):
    """reported statistics vs moments, per phase, on synthetic multi-phase / multi-element states (empty and populated phases in
    every order) — the same generator as C01"""
    import importlib
    c01 = importlib.import_module('corr.C01')
    for _ in range(ctx.n(150, 3000)):
        rec = c01.synth_record(ctx.rng)
        P = len(rec['x'])
        res.case(('synthetic-multiphase', rec['tag'], tuple(np.round(rec['dens'], 3))), bool(np.any(rec['dens'] >= rec['minDens'])))
        res.count('synthetic-multiphase:%d-phases' % P)
        for p in range(P):
            N, R = rec['x'][p], rec['size'][p]
            m0 = math.fsum(N); m1 = math.fsum(float(a) * float(b) for a, b in zip(N, R)); m3 = math.fsum(float(a) * float(b) ** 3 for a, b in zip(N, R))
            case = dict(kind='_calcMassBalance on a synthetic state', tag=rec['tag'], phase=p, phases=P, dens=rec['dens'].tolist(), Ravg=rec['Ravg'].tolist(),
                        volFrac=rec['volFrac'].tolist(), x=[a.tolist() for a in rec['x']], size=[a.tolist() for a in rec['size']])
            if not close(rec['dens'][p], m0, 1e-9):
                res.violate('density-not-M0', 'recorded density is not the zeroth moment', case, float(rec['dens'][p]), m0)
            if m0 >= rec['minDens']:
                if not close(rec['Ravg'][p], m1 / m0, 1e-9):
                    res.violate('ravg-not-M1/M0', 'recorded mean radius of a populated phase is not M1/M0', case, float(rec['Ravg'][p]), m1 / m0)
                c = rec['volRatio'][p] * rec['volumeFactor'][p]
                want = 1.0 if rec['prevVolFrac'][p] == 1 else min(c * m3, 1.0)
                if not close(rec['volFrac'][p], want, 1e-9):
                    res.violate('volfrac-not-scaled-M3', 'recorded volume fraction is not min(c*M3,1)', case, float(rec['volFrac'][p]), want)
            elif rec['Ravg'][p] != 0 or rec['volFrac'][p] != 0:
                res.violate('empty-phase-statistics', 'phase below the density floor reports non-zero radius / fraction', case)


def corr(ctx, oracle_only=False):
    res = Result()
    res.rule = ('every accepted step of real Al-Zr (and Ni-Cr-Al, thorough) runs, Euler and RK4, incl. a grid configured to extend and re-mesh, '
                'plus synthetic re-mesh operations; non-trivial = populated distribution with non-zero growth; distinct = (run, step)')
    vlib.guarded(res, 'synthetic-remesh', {}, synthetic_remesh, ctx, res)
    vlib.guarded(res, 'synthetic-multiphase', {}, synthetic_multiphase, ctx, res)
    lines, refs = [], []
    ok, runs_ = vlib.guarded(res, 'real-run', {}, runs, ctx)
    for tag, tb in RUN_ERRORS:
        if vlib.in_repo_traceback(tb):
            res.violate('raises:real-run', 'a real run crashed inside the implementation', {'run': tag, 'traceback': tb[-1500:]})
    del RUN_ERRORS[:]
    for tag, model, log, solver in (runs_ if ok else []):
        pd = model.pData
        posts = log.post
        mbs = [r for r in log.mb if r['in_post']]
        if not (len(posts) == len(mbs) == len(log.upd) == pd.n):
            if not any(v['key'] == 'raises:real-run' and v['case'].get('run') == tag for v in res.violations):
                res.violate('history-length', 'steps/logs misaligned', {'run': tag}, [len(posts), len(mbs), len(log.upd), pd.n])
            continue
        res.traces += 1
        for k in range(pd.n):          # step k -> k+1
            po, mb, up = posts[k], mbs[k], log.upd[k]
            co = po['corr']
            P = len(po['x'])
            for p in range(P):
                xold = co['x'][p]; nf = co['netFlux'][p]; dt = co['dt']; nr = float(co['nucRate'][p]); n = len(xold)
                xnew = po['x'][p]; xproc = mb['x'][p]; size = mb['size'][p]
                nontriv = xold.max() > 0 and np.abs(co['growth'][p]).max() > 0
                res.case((tag, k, p), nontriv)
                case = dict(run=tag, step=k + 1, phase=p, t=po['t'], dt=dt, bins=n, nucRate=nr, Rnuc=float(co['Rnuc'][p]),
                            M0_old=float(xold.sum()), M0_new=float(xnew.sum()), J0=float(nf[0]), Jn=float(nf[-1]))
                if k in (0, pd.n - 1) and p == 0:
                    res.sample(case)
                # ---- budget of the accepted update
                mag = float(np.abs(xold).sum()) * 1e-3 + abs(dt) * (float(np.abs(nf).sum()) + abs(nr))
                d = float(xnew.sum() - xold.sum()); want = dt * (float(nf[0]) - float(nf[-1]) + nr)
                if not close(d, want, 1e-9, max(mag, float(xold.sum()) * 1e-6)):
                    res.violate('density-budget', 'change of total number != dt*(J0 - Jn + nucRate)', case, d, want)
                if nf[0] > 0 or nf[-1] < 0:
                    res.violate('ends-one-sided', 'particles enter through an end of the grid', case)
                dens_new = float(pd.precipitateDensity[k + 1, p])
                if dens_new > float(xold.sum()) + nr * dt + 1e-9 * (float(xold.sum()) + nr * dt) + 1e-300:
                    res.violate('density-grows-more-than-nucleation', 'recorded density exceeds previous stored total + nucRate*dt', case,
                                dens_new, float(xold.sum()) + nr * dt)
                res.count('step:nucleating' if nr * dt > 0 else 'step:no-nucleation')
                # ---- the size classes the statistics refer to: centres are the midpoints of the class boundaries in force
                bnds = np.asarray(co['bounds'][p], dtype=float)
                if len(bnds) == len(size) + 1:
                    mid = 0.5 * (bnds[:-1] + bnds[1:])
                    if not vlib.all_close(size, mid, 1e-12):
                        i_bad = int(np.argmax(np.abs(np.asarray(size) - mid)))
                        res.violate('class-centres-not-midpoints', 'the class centres used for the moments (mean radius, volume fraction) are not the '
                                    'midpoints of the class boundaries: the reported statistics are not moments of the size distribution on its grid',
                                    dict(case, first_bad_class=i_bad), float(size[i_bad]), float(mid[i_bad]))
                else:
                    res.violate('class-centres-not-midpoints', 'number of class centres != number of class boundaries - 1', case, len(size), len(bnds) - 1)
                # ---- recorded statistics are moments of the processed state
                m0 = math.fsum(xproc); m1 = math.fsum(float(a) * float(b) for a, b in zip(xproc, size))
                if not close(dens_new, m0, 1e-9):
                    res.violate('density-not-M0', 'recorded density is not the zeroth moment of the state of that step', case, dens_new, m0)
                if m0 >= mb['minDens'] and not close(float(pd.Ravg[k + 1, p]), m1 / m0, 1e-9):
                    res.violate('ravg-not-M1/M0', 'recorded mean radius is not M1/M0', case, float(pd.Ravg[k + 1, p]), m1 / m0)
                c = mb['volRatio'][p] * mb['volumeFactor'][p]
                m3 = math.fsum(float(a) * float(b) ** 3 for a, b in zip(xproc, size))
                if m0 >= mb['minDens'] and pd.volFrac[k, p] != 1 and not close(float(pd.volFrac[k + 1, p]), min(c * m3, 1.0), 1e-9):
                    res.violate('volfrac-not-scaled-M3', 'recorded volume fraction is not min(c*M3,1)', case, float(pd.volFrac[k + 1, p]), min(c * m3, 1.0))
                # ---- processed state vs stored PSD
                pre, post = up['pre'][p], up['post'][p]
                stored = post['psd']
                if post['bins'] == pre['bins'] and post['bounds'] == pre['bounds']:
                    res.count('update:plain')
                    ok = all((s == v) or (s == 0 and (v < 1 or i <= po['RdfIdx'][p] or size[i] < po['minRadius'])) for i, (s, v) in enumerate(zip(stored, xproc)))
                    if not ok or stored.min() < 0:
                        res.violate('stored-psd-not-truncation', 'stored PSD is not the state with classes < 1 (and unstable classes) set to 0', case)
                    slack = m0 - float(stored.sum())
                    if not (-1e-9 * m0 <= slack <= n + 1e-9 * m0):
                        # a state that is negative beyond rounding (zeroed on storing: particles created) shows up here; since the
                        # repair of correctdXdtEuler (total outflow of a class limited, known_findings.txt 'fixed: property=C02 f9a39e6')
                        # the corrected update keeps every class non-negative (C07.corrected_update_nonneg), so there is no exemption
                        res.violate('truncation-slack', 'M0(state) - M0(stored) outside [0, #classes]', case, slack, n)
                elif post['bins'] > pre['bins'] and abs(post['bounds'][0] - pre['bounds'][0]) <= 1e-12 * pre['bounds'][0] and \
                        close((post['bounds'][1] - post['bounds'][0]) / post['bins'], (pre['bounds'][1] - pre['bounds'][0]) / pre['bins'], 1e-9):
                    res.count('update:extended')
                    tr = np.where(xproc < 1, 0.0, xproc)
                    if not (np.array_equal(stored[:n][tr > 0], tr[tr > 0]) and np.all(stored[n:] == 0)):
                        res.violate('extend-touched-classes', 'extension changed existing populations or filled new classes', case)
                else:
                    res.count('update:re-meshed')
                    tr = np.where(xproc < 1, 0.0, xproc)
                    a, b = float(tr.sum()), float(stored.sum())
                    if b > 0 and not close(a, b, 1e-6):
                        res.violate('remesh-changes-number-density', 're-mesh on an accepted step changed the number density by %+.2e (relative) '
                                    'with no nucleation or dissolution involved' % ((b - a) / a), dict(case, bins_after=post['bins']), b, a)
                # ---- correspondence of the whole step (Euler glue only: base state = state the fluxes were computed on)
                if solver == 'euler' and not oracle_only:
                    lines.append('psd.step %s %s %s %s %s %s %d %s %s' % (enc_list(co['bounds'][p]), enc_list(co['growth'][p]), enc_list(xold),
                                 f2b(nr), f2b(co['Rnuc'][p]), f2b(dt), po['RdfIdx'][p], f2b(po['minRadius']), enc_list(size)))
                    refs.append((case, xnew, xproc, np.where(xproc < 1, 0.0, xproc), dens_new))
    if lines and ctx.driver_ok:
        ans = vlib.run_driver(PROP, lines)
        for a, (case, xnew, xproc, tr, dens) in zip(ans, refs):
            t = Toks(a)
            if not t.ok:
                res.disagree('model error ' + str(t.err), case, 'ok', t.err); continue
            mx, mp, ms = t.flts(), t.flts(), t.flts(); m0 = t.flt()
            sc = float(np.abs(xnew).max()) * 1e-6
            if not vlib.all_close(mx, xnew, 1e-9, sc): res.disagree('state after accepted update', case, xnew[:5].tolist(), mx[:5])
            elif not vlib.all_close(mp, xproc, 1e-9, sc): res.disagree('processed state (_processX)', case, xproc[:5].tolist(), mp[:5])
            elif not close(m0, dens, 1e-9): res.disagree('recorded density', case, dens, m0)
            else:
                # truncation threshold: entries within rounding of 1 are ties
                tie = np.any(np.abs(np.asarray(mp) - 1) < 1e-6)
                if tie: res.near_tie_skipped += 1
                elif not vlib.all_close(ms, tr, 1e-9, sc): res.disagree('stored PSD (truncation)', case, tr[:5].tolist(), ms[:5])
    # the COMPOSED step (KWNFull.eulerStep): transport, correction, truncation, extension / re-mesh and the recorded statistics of every
    # accepted step of real runs must be those of the model given the same entry state and backend answers
    if True:      # in the oracle-only pass (search, replay) the scenarios run with their direct oracles, without the model
        kwnfull.refine_scenarios(ctx, res, PROP, [('alzr-loaded', ctx.n(80, 170)), ('alzr-small-grid', ctx.n(400, 1500)), ('alzr-loaded@rk4', ctx.n(50, 170)), ('nicral@2solves', ctx.n(40, 150)), ('alzr-small-grid@record', ctx.n(250, 800)), ('alzr-loaded-dilute', ctx.n(150, 500)), ('alzr-preloaded', ctx.n(25, 80)), ('alzr-fixed-grid', ctx.n(60, 250)), ('alzr-small-grid@record@reset', ctx.n(30, 120)), ('alzr-top-loaded@record', ctx.n(60, 200)), ('nicral@stop', ctx.n(60, 200)), ('nicral@stop@rk4', ctx.n(60, 200)), ('alzr-minradius', ctx.n(60, 300)), ('alzr-top-loaded@rk4', ctx.n(40, 150))] +
                                 ([('almgsi-2phase-loaded', 200), ('nicral', 300), ('alzr-small-grid@2solves', 200)] if ctx.thorough else []),
                                 oracles=('continuity', 'volume', 'recorded', 'grid', 'setuprow', 'budget', 'topflow', 'stored'), driver=not oracle_only)
    vlib.finish_guard(res)
    return res


def search(ctx, broken):
    return corr(ctx, oracle_only=True)


def replay(ctx, entry):
    c = entry['violation']['case']
    print('  replay = re-run of', c.get('run', c.get('kind')), 'at step', c.get('step'))
    r = corr(ctx, oracle_only=True)
    keys = {v['key'] for v in r.violations}
    return entry['violation']['key'] not in keys
