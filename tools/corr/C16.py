"""C16 — elastic strain energy is a positive, volume-proportional quadratic form.

regenerate(): every input-pair branch of moduliToC (the compliance entries it hands to np.linalg.inv),
the Khachaturyan sphere / cube approximation, the constant description, the Cramer 3x3 inverse
(`_ohm_quickInverse`, nine expressions), `_beta` and `_n` are traced from the ElasticFactors.py under
test into lean/KawinV/Gen/C16Elastic.lean (concolic tracer).
corr(): translator validation (every generated def on Float vs the Python function), tensor
conversions / rotations / Cramer inverse / fixed invert4rankTensor on random input vs the hand model,
moduliToC branch priority vs the model, the Eshelby energy (Ellipsoid and Bohm) of the model on the
code's own quadrature nodes vs the real methods, setter op sequences on the real StrainEnergy vs the
state-machine model (final tensors, description, energy compared), histories of ONE object (setters in
every input form, description-level settings, compute / energy-variant / aspect-ratio calls in between)
vs the history model `KawinV.Elastic.hrun` (every compute result compared).  Direct oracle: the C16
predicates on the real code (see MONITORED), among them fresh-object equivalence (part F: every
observation in a random history equals that of a newly constructed object given the settings in force
only; failing histories are delta-debugged and stored as replayable call lists) and input-form
equivalence (part G: the same tensor as 6x6 / 3x3x3x3 / nested lists / property assignment / elastic
constants / moduli pairs gives the same stored tensor, parameters and energies) and orientation of the particle axes
(part H: `_beta` against the code's own `_n`; every energy under the joint relabelling of the coordinate axes of semi-axes,
eigenstrain and stiffness by the 24 proper cube operations and the three transpositions, for tri-axial ellipsoids and spheroids
about x, y and z in isotropic / cubic / misaligned-cubic matrices on six quadrature schemes; textbook Eshelby tensor of spheroids
about each axis and of tri-axial ellipsoids).  The model side of part H: `quadForm`, `betaSqSC`, `perm6`, `betaSqMirrored` of
KawinV.Elastic are evaluated by the driver verb el.beta.axes at the traced `_n` and compared with the real `_beta`.
Part I (array calls): `compute` on an (n x 3) array whose rows share the SHAPE at different SIZES (one triple scaled by 0.5, 2, 3, 10,
as a run, interleaved with other shapes, with repeated rows, n = 2..8; every description, matrix stiffness as 6x6 and as 3x3x3x3)
and eqAR_byGR / eqAR_bySearch on arrays of radii: row i = the single call on row i (1e-12), same shape at two sizes inside one call ->
cube of the size factor, permuted rows -> permuted results; the model `KawinV.Elastic.computeRows` (driver verb el.rows) on the same
settings and rows, with the reuse-previous-row variant `computeRowsReuse` evaluated next to it for the diagnosis."""
import itertools, math, os, sys, traceback
import numpy as np
import vlib
from vlib import Result, enc_list, f2b, Toks, close

PROP = 'C16'
META = {
    'level_text': 'Lean 4 theorems about definitions REGENERATED on every run from ElasticFactors.py by a concolic tracer (all 15 input-pair branches of moduliToC, Khachaturyan sphere/cube, constant description, Cramer 3x3 inverse, _beta, _n) and about a hand model (KawinV.Elastic) of the tensor-rank conversions, rotations, the repaired invert4rankTensor, the Eshelby energy skeleton (sphInt/Dijkl/Sijmn/Ellipsoid/Bohm over an arbitrary node list) and the StrainEnergy setter state machine with update() as coded after the repairs: rank conversions round-trip (every 6x6; every 4th-rank tensor with the minor symmetries), rotation keeps the minor symmetries, Cramer inverse is a two-sided inverse and the only one when det != 0, every moduliToC branch returns the compliance of the textbook (E, nu, G) for consistent input (sqrt branches under explicit sign hypotheses; the E-M branch is proved to return the OTHER root for negative nu), compliance x stiffness = 1, Khachaturyan on isotropic constants = 2G(1+nu)/(1-nu) eps^2 V, size scaling E(s r) = s^3 E(r) and eigenstrain scaling E(c eps) = c^2 E(eps) for Khachaturyan, constant, Ellipsoid and Bohm, homogeneous inclusion Bohm = Ellipsoid, the repaired invert4rankTensor is the inverse on minor-symmetric tensors (and the unweighted one is not: witness), the final parameters of any setter sequence are a function of the final (rotation, rotationPrec, stiffnesses, applied stress) only (false of the code before commit 187e553: witness), and in a family of live objects an interleaved call sequence leaves every object in the state its own calls alone produce (runFam_independent; negative witness fillDiagonal_leaks for an in-place write into the class-level array that StrainEnergyParameters shares between objects); history purity of one object: in the history model (setters, quadrature setters, compute calls interleaved; KawinV.Elastic.hrun, tied to the code by correspondence on every compute result) two histories that end with the same settings answer compute(r) identically, so a used object equals a fresh one given the final settings (history_fresh_equiv); for an object that keeps a memo table of a kernel (abstract: settings, kernel inputs, key, kernel; KawinV.Elastic.Memo) every result equals that of an object without a table provided every setter that changes a kernel input empties the table and equal keys mean equal kernel values (memo_sound, memo_fresh_equiv; instance for Dijkl inside StrainEnergy: eshelby_memo_sound, only the eigenstrain setters may skip the clearing: eig_setters_keep_kernel_input), and a table keyed by the radii alone that a stiffness setter does not empty returns the stale value (memo_stale_witness, memo_stale_witness_unsound); axis convention of the ellipsoid: the traced _beta squared is the quadratic form sum (r_i n_i)^2 with the SAME index pairing as the traced _n (beta_sq_eq_quadratic_form, beta_eq_sqrt_quadForm), the quadratic form and the model distance are invariant under every joint permutation of the axes of (semi-axes, direction) (quadForm_joint_permutation, betaN_joint_permutation, beta_joint_permutation for the traced pair at azimuth pi/2 - phi), the x<->y mirrored radius function differs by (a^2-b^2)(sin^2 phi - cos^2 phi) sin^2 theta, i.e. for every particle with r[0] != r[1] and never for r[0] = r[1] (betaSqMirrored_sub, betaSqMirrored_ne, betaSqMirrored_eq_of_equal_axes; exact rational witness beta_mirrored_differs), and the quadrature sum is covariant: a jointly invariant distance function, a covariant kernel and a node table mapped to itself give D(relabelled particle)_ijkl = D_{s(i)s(j)s(k)s(l)} (sphInt_joint_permutation, Dijkl_joint_permutation; hypotheses discharged for x<->y and a cubic / isotropic stiffness along the axes: Dijkl_swap_cubic); array calls: compute on an (n x 3) array is the list of the single-row energies (KawinV.Elastic.computeRows, tied to the code by the driver verb el.rows): row i = the single call on row i whatever precedes or follows it (computeRows_getElem, computeRows_context), rows taken in any order / repeated / sub-selected give the results taken the same way (computeRows_takeRows, computeRows_perm, computeRows_repeated), and a row that is another row scaled by s > 0 gets s^3 times its energy inside one call for every description and every settings history (computeOf_size_scaling, compute_rows_cube_scaling, real_compute_rows_cube_scaling); a loop that hands the previous row\'s energy to a row with the same axis ratios (computeRowsReuse) is wrong for every cube-scaling energy != 0 at s^3 != 1 (computeRowsReuse_differs; exact witness rows (1,1,2), (2,2,4): [2, 2] instead of [2, 16], computeRowsReuse_witness) and indistinguishable from the code on arrays without equal-shape neighbours and on rows of equal energy such as the unit-volume radii the KWN model passes (computeRowsReuse_eq_of_distinct, computeRowsReuse_eq_of_equal_energy).',
    'level_note': 'MONITORED only (oracle on the real code, not proved): energy >= 0 for positive-definite stiffness; rotation invariance; textbook Eshelby tensor components of the isotropic sphere; Lebedev exactness on monomials up to the stated order on every table; agreement of the 6x6 and 4th-rank energy variants and of the two 3x3 inversion routines; Bohm against an independent 9x9 reference. The Lebedev tables produced by loadPoints are NOT exact (finding lebedev-inexact-order*): analytic clauses that depend on the quadrature are evaluated twice, with the code\'s own nodes (failures carry the finding key) and with an independent Gauss-Legendre x trapezoid rule injected into the real description (must pass). Trusted: Lean kernel + Mathlib, axioms propext/Classical.choice/Quot.sound; tools/py2lean/sym.py (validated numerically on every run); the hand model equals the NumPy code as far as this run compared them; np.linalg.inv is modelled as "an inverse" (abstract in the theorems, Gauss-Jordan in the driver); exact-field arithmetic instead of IEEE doubles; sqrt/sin/cos are atoms with the laws used stated as hypotheses and discharged for the real numbers.',
    'technique': 'Lean 4 proof over generated definitions (py2lean) + hand model/state machine + differential correspondence + analytic oracle',
    'design_ref': 'DESIGN.md section 6, C16',
}
LEAN_MODULES = ['KawinV.Props.C16']
MONITORED = [
    'energy >= 0 for positive-definite cubic/isotropic stiffness pairs (all energy variants, all three quadrature orders)',
    'rotation invariance: sphere + dilatational eigenstrain in a cubic matrix (matrix and precipitate rotated together), ellipsoid in an isotropic matrix',
    'Eshelby tensor of the isotropic sphere has the textbook components (7-5nu, 5nu-1, 4-5nu)/(15(1-nu))',
    'Lebedev tables integrate all monomials x^a y^b z^c up to the stated order (53/83/131) to 1e-11',
    '6x6 and 4th-rank energy variants agree; quick (Cramer) and numpy 3x3 inversion agree; Bohm agrees with an independent 9x9 pseudo-inverse reference',
    'isotropic sphere: Ellipsoid/Bohm/Khachaturyan energy = 2G(1+nu)/(1-nu) eps^2 V',
    'history purity on the real code: random call sequences on ONE StrainEnergy object (all setters in all input forms incl. property assignment and setShape by name / instance, setLebedevIntegration / setIntegrationIntervals / setOhmInverseFunction on the description, setAspectRatioResolution / setInterfacialEnergyMethod / clearCache, mixed with compute on one or several radii triples, the five energy variants, eqAR_bySearch / eqAR_byGR at repeated and varying aspect ratios): every observation equals that of a freshly constructed object given only the settings in force; the description kind follows the calls (finding history:eqAR_bySearch:stale-aspect-ratio-table: the aspect-ratio table of eqAR_bySearch is never invalidated)',
    'input-form equivalence on the real code: the same matrix / precipitate stiffness as 6x6, 3x3x3x3, nested lists, property assignment, elastic constants, three random moduli pairs (precipitate different from the matrix, with and without rotations, either side first) and the same eigenstrain / applied stress as scalar, 3-vector, matrix: stored tensor = the supplied tensor (expanded independently), same parameters, same energies',
    'orientation of the particle axes on the real code: _beta(a,b,c,phi,theta) = sqrt((a n_x)^2+(b n_y)^2+(c n_z)^2) with n = the code\'s own _n, and unchanged under joint relabelling of (semi-axes, direction); compute / strainEnergyEllipsoid of tri-axial ellipsoids (random choice of the longest axis) and of spheroids about x, y, z, diagonal (e11 != e22 != e33) and full symmetric eigenstrain, isotropic / cubic / misaligned cubic matrix with equal or different precipitate stiffness, are unchanged when the coordinate axes are relabelled (24 proper cube operations + the three transpositions acting on semi-axes, eigenstrain and, for the misaligned crystal, the stiffness) on the three Lebedev tables, the octant and the whole-sphere mid-point grid of setIntegrationIntervals and an injected Gauss-Legendre rule: 1e-9 where the relabelling maps the node table onto itself (measured on the table: the shipped Lebedev tables are only invariant under the rotations about z), else the quadrature accuracy of the scheme (Lebedev 0.3 / 0.2 / 0.15 and reported under the finding lebedev-inexact-order* while the tables are inexact; octant grid 24x24 3e-2; whole-sphere grid 96x48 5e-2; product rule 2e-5: the unchanged code stays below a third of the last three over 60 seeds); Eshelby tensor of prolate / oblate spheroids about each of x, y, z (Mura closed forms) and of tri-axial ellipsoids (elliptic integrals by adaptive quadrature) in an isotropic matrix, all 81 components, absolute tolerance per scheme 0.12 / 0.08 / 0.05 (Lebedev tables, measured worst 0.06 / 0.03 / 0.02), 1.5e-2 octant grid, 2e-2 whole-sphere grid, 1e-6 product rule (5e-5 tri-axial)',
    'array calls on the real code: compute on an (n x 3) array, n = 2..8, whose rows are one to three shapes (sphere, spheroid about any axis, tri-axial) at the sizes 1, 0.5, 2, 3, 10 (x7) - a run of one shape, interleaved shapes, repeated rows - for constant / sphere / cube / ellipsoid (by name ellipsoid, plate, needle) descriptions, matrix and precipitate stiffness as 6x6 or 3x3x3x3, eigenstrain scalar / vector / matrix, grid and Lebedev quadrature: row i equals compute(row i), description.computeStrainEnergy(row i) and compute(list(row i)) to 1e-12; rows of the same shape have energies in the ratio of the cubes of their sizes (1e-9); compute(rows[perm]) = compute(rows)[perm] for a random permutation and the reversal; the five energy variants of the ellipsoidal description scale with the cube across the rows; eqAR_byGR / eqAR_bySearch on an array of radii (with a repeated radius) = the calls on the single radii, permuted radii -> permuted answers (the aspect-ratio table first grown until stable)',
    'precipitate rotation vs matrix rotation on the real code (keys precrot:*): isotropic matrix + explicitly given cubic precipitate stiffness (Zener ratio 0.4-4; as constants, 6x6 or 3x3x3x3; rotations supplied before or after the stiffness), sphere / needle / plate / tri-axial radii, diagonal or full eigenstrain, Lebedev low / mid / high: (a) compute with setRotationMatrix(R) = compute without rotation; (b) setRotationPrecipitate(R2) with the unrotated tensor = no rotation with the tensor rotated by R2 (own einsum, and by rotateRank4Tensor) handed over; (c) both rotations set = the pre-rotated tensor, whatever R; relative 1e-10 (same nodes on both sides; measured worst 3.1e-14 over 7200 cases); no Lean theorem states that rotating an isotropic stiffness is the identity, oracle only',
    'object independence on the real code: several live StrainEnergy objects configured in interleaved order, each read after all were configured, equal a fresh single object given the same calls and hold the eigenstrain supplied to them; eps^2 / s^3 scaling and the closed form evaluated across objects',
]
ASSUMPTIONS = [
    'stiffness tensors are positive definite cubic or isotropic (plus rotations of them); radii positive; eigenstrain a symmetric 3x3 tensor',
    'theorems are over exact ordered-field arithmetic; IEEE doubles compared with rtol 1e-9 (1e-7 where a 6x6 inverse is involved)',
    'moduliToC: inputs that are 0 or None are "not given" (Python truthiness), as in the code; nu = 0 / lam = 0 therefore raise, outside the statement',
]
TRUSTED = ['tools/py2lean/sym.py concolic tracer and emitter (every generated def is re-validated numerically on each run)',
           'np.tensordot / np.linalg.inv semantics as modelled in KawinV.Elastic (compared on every run)']

GEN_FILE = os.path.join(vlib.LEAN, 'KawinV', 'Gen', 'C16Elastic.lean')
SRC = 'kawin/precipitation/parameters/ElasticFactors.py'
MODS = ['E', 'nu', 'G', 'lam', 'K', 'M']
PAIRS = [(MODS[i], MODS[j]) for i in range(6) for j in range(i + 1, 6)]

_EF = [None]


def load():
    if _EF[0] is None:
        vlib.use_repo()
        import warnings
        with warnings.catch_warnings():
            warnings.simplefilter('ignore')
            from kawin.precipitation.parameters import ElasticFactors as EF
            from kawin.precipitation.parameters import LebedevNodes as LN
        _EF[0] = (EF, LN)
    return _EF[0]


def consistent(E, nu):
    """the six isotropic moduli belonging to (E, nu) — textbook definitions"""
    return dict(E=E, nu=nu, G=E / (2 * (1 + nu)), lam=E * nu / ((1 + nu) * (1 - 2 * nu)),
                K=E / (3 * (1 - 2 * nu)), M=E * (1 - nu) / ((1 + nu) * (1 - 2 * nu)))


# ------------------------------------------------------------------ translator
class _LinalgProxy:
    def __init__(self, real, cap):
        self._r, self._cap = real, cap

    def inv(self, m):
        self._cap.append(m)
        return m

    def __getattr__(self, k):
        return getattr(self._r, k)


class _NpProxy:
    """stands in for the module-global `np` of ElasticFactors while tracing: np.zeros gives object arrays
    (so that traced values can be stored), np.linalg.inv records its argument, np.pi is an atom"""
    def __init__(self, real, Sym):
        self._r, self._Sym = real, Sym
        self.captured = []
        self.linalg = _LinalgProxy(real.linalg, self.captured)
        self.pi = Sym.atom('pi', math.pi)

    def zeros(self, shape, *a, **k):
        out = self._r.empty(shape, dtype=object)
        for i in range(out.size):
            out.flat[i] = self._Sym.const(0)
        return out

    def __getattr__(self, k):
        return getattr(self._r, k)


def regenerate(ctx):
    sys.path.insert(0, os.path.join(vlib.VERIF, 'tools', 'py2lean'))
    import sym
    from sym import Sym, emit_def
    EF, _ = load()
    src = sym.HEADER + '\nnamespace KawinV.Gen.C16\n\n'
    val = consistent(200.0, 0.3)
    saved = EF.np
    prox = _NpProxy(np, Sym)
    EF.np = prox
    del sym.PATH[:]
    try:
        # ---- moduliToC, one traced run per accepted input pair
        for a, b in PAIRS:
            del prox.captured[:]
            EF.moduliToC(**{a: Sym.var(a, val[a]), b: Sym.var(b, val[b])})
            if len(prox.captured) != 1 or getattr(prox.captured[0], 'shape', None) != (6, 6):
                raise RuntimeError('moduliToC(%s,%s): expected one 6x6 np.linalg.inv call' % (a, b))
            s = prox.captured[0]
            for i, j in itertools.product(range(6), range(6)):
                want = s[0, 0] if i == j and i < 3 else s[3, 3] if i == j else s[0, 1] if (i < 3 and j < 3) else None
                got = Sym.const(s[i, j])
                if want is None:
                    if not (got.node.op == 'lit' and got.val == 0.0):
                        raise RuntimeError('moduliToC(%s,%s): compliance entry %d%d is not 0' % (a, b, i, j))
                elif got.node is not Sym.const(want).node:
                    raise RuntimeError('moduliToC(%s,%s): compliance is not of the isotropic pattern at %d%d' % (a, b, i, j))
            t, _ = emit_def('moduli_%s_%s' % (a, b), [a, b], [s[0, 0], s[0, 1], s[3, 3]],
                            '%s moduliToC(%s, %s): entries s11, s12, s44 of the compliance handed to np.linalg.inv' % (SRC, a, b),
                            ['s11', 's12', 's44'])
            src += t
        # ---- Khachaturyan / constant
        r = np.array([Sym.var('r0', 1.0), Sym.var('r1', 2.0), Sym.var('r2', 3.0)], dtype=object)

        def params():
            P = EF.StrainEnergyParameters()
            c = prox.zeros((6, 6))
            c[0, 0] = Sym.var('c11', 168.4); c[0, 1] = Sym.var('c12', 121.4); c[3, 3] = Sym.var('c44', 75.4)
            e = prox.zeros((3, 3))
            e[0, 0] = Sym.var('eps', 0.01)
            P.cMatrix_2nd = c; P.eigenstrain = e
            P.constantEnergy = Sym.var('e0', 2e7)
            return P
        d = EF.SphericalEnergyDescription(); d.params = params()
        out = d._Khachaturyan(Sym.var('I1', 1 / 15), Sym.var('I2', 1 / 105), r)
        t, _ = emit_def('khachaturyan', ['c11', 'c12', 'c44', 'eps', 'I1', 'I2', 'r0', 'r1', 'r2'], Sym.const(out),
                        SRC + ' SphericalEnergyDescription._Khachaturyan')
        src += t
        for cls, nm in ((EF.SphericalEnergyDescription, 'sphere'), (EF.CuboidalEnergyDescription, 'cube')):
            d = cls(); d.params = params()
            t, _ = emit_def('khach_' + nm, ['c11', 'c12', 'c44', 'eps', 'r0', 'r1', 'r2'], Sym.const(d.computeStrainEnergy(r)),
                            '%s %s.computeStrainEnergy' % (SRC, cls.__name__))
            src += t
        d = EF.ConstantEnergyDescription(); d.params = params()
        t, _ = emit_def('constant_energy', ['e0', 'r0', 'r1', 'r2'], Sym.const(d.computeStrainEnergy(r)),
                        SRC + ' ConstantEnergyDescription.computeStrainEnergy')
        src += t
        # ---- Cramer inverse, beta, n
        d = EF.EllipsoidalEnergyDescription()
        ij = [(i, j) for i in range(3) for j in range(3)]
        m = np.array([[Sym.var('m%d%d' % (i, j), float(3 * i + j + 1 + (5 if i == j else 0))) for j in range(3)] for i in range(3)], dtype=object)
        out = d._ohm_quickInverse(m)
        if getattr(out, 'shape', None) != (3, 3):
            raise RuntimeError('_ohm_quickInverse: unexpected shape')
        t, _ = emit_def('quickInverse', ['m%d%d' % p for p in ij], [out[p] for p in ij], SRC + ' EllipsoidalEnergyDescription._ohm_quickInverse',
                        ['%d%d' % p for p in ij])
        src += t
        ph = np.array([Sym.var('phi', 0.3)], dtype=object); th = np.array([Sym.var('theta', 0.7)], dtype=object)
        out = d._beta(Sym.var('a', 1.0), Sym.var('b', 2.0), Sym.var('c', 3.0), ph, th)
        t, _ = emit_def('beta', ['a', 'b', 'c', 'phi', 'theta'], Sym.const(out[0]), SRC + ' EllipsoidalEnergyDescription._beta')
        src += t
        out = d._n(ph, th)
        if getattr(out, 'shape', None) != (3, 1):
            raise RuntimeError('_n: unexpected shape')
        t, _ = emit_def('nvec', ['phi', 'theta'], [out[0, 0], out[1, 0], out[2, 0]], SRC + ' EllipsoidalEnergyDescription._n', ['0', '1', '2'])
        src += t
        if sym.PATH:
            raise RuntimeError('traced formulas branch on a traced value: %r' % (sym.PATH[:3],))
    finally:
        EF.np = saved
    src += 'end KawinV.Gen.C16\n'
    return [os.path.relpath(GEN_FILE, vlib.VERIF)] if vlib.write_if_changed(GEN_FILE, src) else []


# ------------------------------------------------------------------ helpers
ORDERS = {'low': 53, 'mid': 83, 'high': 131}
DESC_CODE = {'ConstantEnergyDescription': 0, 'SphericalEnergyDescription': 1, 'CuboidalEnergyDescription': 2, 'EllipsoidalEnergyDescription': 3}


def fast_points(EF, LN):
    """loadPoints is a pure function of the order; memoise it for the harness (setShape rebuilds three
    ellipsoidal descriptions on every call).  The first call per order still runs the code under test."""
    if getattr(EF.loadPoints, '_c16_memo', False):
        return
    cache = {}
    real = LN.loadPoints

    def memo(order):
        if order not in cache:
            cache[order] = real(order)
        return cache[order]
    memo._c16_memo = True
    EF.loadPoints = memo


def rand_rotation(r):
    q = r.normal(size=4); q /= np.linalg.norm(q)
    a, b, c, d = q
    return np.array([[a*a+b*b-c*c-d*d, 2*(b*c-a*d), 2*(b*d+a*c)],
                     [2*(b*c+a*d), a*a-b*b+c*c-d*d, 2*(c*d-a*b)],
                     [2*(b*d-a*c), 2*(c*d+a*b), a*a-b*b-c*c+d*d]])


def rand_cubic(r):
    """mechanically stable cubic constants (Pa): c44 > 0, c11 > |c12|, c11 + 2 c12 > 0; Zener ratio 0.4 .. 4"""
    c44 = r.uniform(20e9, 150e9)
    A = math.exp(r.uniform(math.log(0.4), math.log(4.0)))
    d = 2 * c44 / A                       # c11 - c12
    c12 = r.uniform(-0.2, 1.5) * d
    return c12 + d, c12, c44


def rand_iso(r):
    E = r.uniform(30e9, 400e9); nu = r.choice([r.uniform(0.05, 0.45), r.uniform(-0.5, 0.45)])
    G = E / (2 * (1 + nu)); lam = E * nu / ((1 + nu) * (1 - 2 * nu))
    return lam + 2 * G, lam, G, E, nu


def rand_eig(r, kind):
    if kind == 'dil':
        return r.uniform(-0.03, 0.03) * np.eye(3)
    if kind == 'diag':
        return np.diag(r.uniform(-0.03, 0.03, 3))
    m = r.uniform(-0.02, 0.02, (3, 3))
    return (m + m.T) / 2


def opt_tok(x):
    return 'none' if x is None else f2b(x)


def product_rule(nt, nphi):
    """independent quadrature on the sphere: Gauss-Legendre in cos(theta) x uniform in phi (exact for
    polynomials of degree <= min(2 nt - 1, nphi - 1)); weights normalised to 1 like the Lebedev tables"""
    x, w = np.polynomial.legendre.leggauss(nt)
    ph = (np.arange(nphi) + 0.5) * 2 * math.pi / nphi
    T, P = np.meshgrid(np.arccos(x), ph, indexing='ij')
    W = np.repeat(w / 2, nphi).reshape(nt, nphi) / nphi
    return P.ravel(), T.ravel(), W.ravel()


def sphere_moment(a, b, c):
    """average of x^a y^b z^c over the unit sphere"""
    if a % 2 or b % 2 or c % 2:
        return 0.0
    lg = math.lgamma
    return math.exp(lg((a + 1) / 2) + lg((b + 1) / 2) + lg((c + 1) / 2) - lg((a + b + c + 3) / 2)) * 2 / (4 * math.pi)


def maxabs(x):
    return float(np.max(np.abs(x))) if np.size(x) else 0.0


def arr_close(a, b, rtol, scale=None):
    a = np.asarray(a, dtype=float).ravel(); b = np.asarray(b, dtype=float).ravel()
    if a.shape != b.shape:
        return False
    s = max(maxabs(a), maxabs(b)) if scale is None else scale
    return vlib.all_close(a, b, rtol, s)


def ellipsoid(EF, order='high', inverse='quick'):
    d = EF.EllipsoidalEnergyDescription()
    if order != 'high':
        d.setLebedevIntegration(order)
    if inverse != 'quick':
        d.setOhmInverseFunction(inverse)
    return d


def bohm_reference(cM4, cP4, S, eig, V):
    """independent of the 6x6 machinery: 4th-rank tensors as 9x9 matrices, inverse on symmetric tensors by pinv"""
    m = lambda t: t.reshape(9, 9)
    T = m(cP4 - cM4) @ m(S) + m(cM4)
    y = m(cP4) @ eig.reshape(9)
    if not (np.all(np.isfinite(T)) and np.all(np.isfinite(y))):
        return float('nan')
    X = np.linalg.pinv(T, rcond=1e-12) @ y            # T : X = cP : eig, X symmetric
    sC = m(cM4) @ (m(S) @ X)
    s0 = m(cM4) @ X
    return -0.5 * V * float(np.sum((sC - s0) * eig.reshape(9)))


def attempt(res, part, idx, fn):
    """robustness rule: one case = one call; whatever the code under test (or the evaluation of its output)
    raises becomes a violation of that case and never aborts corr()"""
    fn.info = None
    try:
        fn(idx)
    except Exception as ex:
        res.violate('exception:%s:%s' % (part, type(ex).__name__),
                    '%s case %r raised %r' % (part, idx, ex),
                    dict(part=part, index=idx if isinstance(idx, (int, str)) else repr(idx), input=fn.info,
                         traceback=traceback.format_exc()[-1800:]))


# ------------------------------------------------------------------ part A/B: generated defs and tensor utilities
def part_formulas(ctx, res, EF, r):
    lines, checks = [], []          # checks: (what, case, fn(Toks) -> None)

    def add(line, what, case, fn):
        lines.append(line); checks.append((what, case, fn))

    # moduliToC: every pair, consistent and arbitrary positive input
    n = ctx.n(6, 60)
    for pi, (a, b) in enumerate(PAIRS):
        def _case_moduli_pairs(k):
            E = 10 ** r.uniform(9, 11.7); nu = r.uniform(0.03, 0.47) if k % 3 else -r.uniform(0.03, 0.8)
            v = consistent(E, nu)
            if k % 4 == 3:
                v = {m: (x * r.uniform(0.8, 1.2)) for m, x in v.items()}
            try:
                with np.errstate(all='ignore'):
                    C = EF.moduliToC(**{a: v[a], b: v[b]})
            except Exception as e:
                res.count('moduli-raise'); return
            if not np.all(np.isfinite(C)):
                res.count('moduli-nonfinite'); return
            case = dict(pair=[a, b], a=v[a], b=v[b])
            res.case(('moduli', a, b, k)); res.count('pair:%s-%s' % (a, b))
            s = np.linalg.inv(C)

            def chk_gen(t, s=s, case=case):
                g = t.flts()
                want = [s[0, 0], s[0, 1], s[3, 3]]
                if not vlib.all_close(g, want, 1e-8, abs(s[0, 0])):
                    res.disagree('generated moduli branch vs moduliToC', case, want, g)
            add('el.gen.moduli %d %s %s' % (pi, f2b(v[a]), f2b(v[b])), 'gen.moduli', case, chk_gen)

            def chk_c(t, C=C, case=case):
                if t.tok() != 'T':
                    res.disagree('model moduliToC raised', case, 'ok', 'raise'); return
                g = t.flts()
                if not arr_close(g, C, 1e-8):
                    res.disagree('model moduliToC', case, C.ravel().tolist(), g)
            toks = {m: None for m in MODS}; toks[a] = v[a]; toks[b] = v[b]
            add('el.moduliC ' + ' '.join(opt_tok(toks[m]) for m in MODS), 'moduliC', case, chk_c)
            # direct oracle: the branch returns the stiffness of the (E, nu) it was given (consistent input only)
            if k % 4 != 3:
                lam, G = v['lam'], v['G']
                want = (lam + 2 * G, lam, G)
                got = (C[0, 0], C[0, 1], C[3, 3])
                ok = vlib.all_close(got, want, 1e-7, abs(want[0]))
                if not ok and (a, b) == ('E', 'M') and nu < 0:
                    res.count('E-M-negative-nu-other-root')     # proved: the branch returns the positive root (Props.C16.moduli_E_M_negative)
                elif not ok:
                    res.violate('moduli-%s-%s' % (a, b), 'moduliToC(%s, %s) does not return the stiffness of the moduli it was given' % (a, b), case, list(map(float, got)), want)
        for k in range(n):
            attempt(res, 'moduli-pairs', k, _case_moduli_pairs)
    # branch priority with 0..6 moduli given
    def _case_moduli_priority(k):
        E = 10 ** r.uniform(9, 11.7); nu = r.uniform(0.05, 0.45)
        v = consistent(E, nu)
        given = {m: (v[m] * (r.uniform(0.7, 1.3) if r.random() < 0.5 else 1.0)) for m in MODS if r.random() < r.choice([0.25, 0.5, 0.8])}
        for m in list(given):
            if r.random() < 0.08:
                given[m] = 0.0
        try:
            with np.errstate(all='ignore'):
                C = EF.moduliToC(**given)
            if not np.all(np.isfinite(C)):
                return
        except (TypeError, ZeroDivisionError):
            C = None
        except np.linalg.LinAlgError:
            return
        case = dict(given=given)
        res.case(('priority', tuple(sorted(given)), k), C is not None); res.count('moduli-given-%d' % len(given))

        def chk_p(t, C=C, case=case):
            ok = t.tok() == 'T'
            if (C is None) != (not ok):
                res.disagree('moduliToC raise/return', case, 'raise' if C is None else 'return', 'return' if ok else 'raise'); return
            if ok and not arr_close(t.flts(), C, 1e-8):
                res.disagree('moduliToC branch priority', case, C.ravel().tolist(), 'different branch')
        add('el.moduliC ' + ' '.join(opt_tok(given.get(m)) for m in MODS), 'priority', case, chk_p)
    for k in range(ctx.n(80, 1500)):
        attempt(res, 'moduli-priority', k, _case_moduli_priority)

    # Khachaturyan / constant
    def _case_khachaturyan(k):
        c11, c12, c44 = rand_cubic(r) if k % 3 else rand_iso(r)[:3]
        eps = r.uniform(-0.05, 0.05); rad = 10 ** r.uniform(-10, -7, 3); e0 = 10 ** r.uniform(5, 9)
        I1, I2 = r.uniform(0, 0.1), r.uniform(0, 0.02)
        P = EF.StrainEnergyParameters()
        P.cMatrix_2nd = EF.elasticConstantToC(c11, c12, c44); P.eigenstrain = eps * np.eye(3); P.constantEnergy = e0
        ds, dc, d0 = EF.SphericalEnergyDescription(), EF.CuboidalEnergyDescription(), EF.ConstantEnergyDescription()
        for d in (ds, dc, d0):
            d.params = P
        want = [ds._Khachaturyan(I1, I2, rad), ds.computeStrainEnergy(rad), dc.computeStrainEnergy(rad), d0.computeStrainEnergy(rad)]
        case = dict(c=[c11, c12, c44], eps=eps, r=rad.tolist(), I=[I1, I2], e0=e0)
        res.case(('khach', k))

        def chk_k(t, want=want, case=case):
            g = t.flts()
            if not all(close(x, y, 1e-10) for x, y in zip(g, want)):
                res.disagree('generated Khachaturyan/constant', case, list(map(float, want)), g)
        add('el.gen.khach ' + ' '.join(f2b(x) for x in [c11, c12, c44, eps, I1, I2, rad[0], rad[1], rad[2], e0]), 'khach', case, chk_k)
        # oracle: scaling laws of the closed-form descriptions; isotropic closed form
        s = r.uniform(0.2, 5); cf = r.uniform(-3, 3)
        for d, nm in ((ds, 'sphere'), (dc, 'cube'), (d0, 'constant')):
            e1 = d.computeStrainEnergy(rad)
            if not close(d.computeStrainEnergy(s * rad), s ** 3 * e1, 1e-11):
                res.violate('size-scaling-' + nm, 'E(s r) != s^3 E(r)', dict(case, s=s), float(d.computeStrainEnergy(s * rad)), float(s ** 3 * e1))
            if nm != 'constant':
                P.eigenstrain = cf * eps * np.eye(3)
                e2 = d.computeStrainEnergy(rad)
                P.eigenstrain = eps * np.eye(3)
                if not close(e2, cf ** 2 * e1, 1e-11):
                    res.violate('eigenstrain-scaling-' + nm, 'E(c eps) != c^2 E(eps)', dict(case, c=cf), float(e2), float(cf ** 2 * e1))
        if k % 3 == 0:
            G = c44; nu = c12 / (2 * (c12 + G))
            want_e = 2 * G * (1 + nu) / (1 - nu) * eps ** 2 * 4 * math.pi / 3 * float(np.prod(rad))
            for d, nm in ((ds, 'sphere'), (dc, 'cube')):
                if not close(d.computeStrainEnergy(rad), want_e, 1e-9):
                    res.violate('khachaturyan-isotropic-' + nm, 'Khachaturyan on isotropic constants != 2G(1+nu)/(1-nu) eps^2 V', case, float(d.computeStrainEnergy(rad)), want_e)
    for k in range(ctx.n(40, 800)):
        attempt(res, 'khachaturyan', k, _case_khachaturyan)

    # 3x3 inverse
    de = EF.EllipsoidalEnergyDescription()
    def _case_inverse3(k):
        kind = k % 3
        m = r.normal(size=(3, 3))
        if kind == 0:
            m = m @ m.T + 0.3 * np.eye(3)
        elif kind == 1:
            m = (m + m.T) / 2 + 3 * np.eye(3)
        if abs(np.linalg.det(m)) < 1e-3:
            return
        q = de._ohm_quickInverse(m[:, :, None])[:, :, 0]
        p = de._ohm_npinv(m[:, :, None])[:, :, 0]
        case = dict(m=m.tolist(), kind=['spd', 'symmetric', 'general'][kind])
        res.case(('inv3', k)); res.count('inv3-' + case['kind'])
        sc = maxabs(p)
        if kind < 2:
            if not arr_close(q, p, 1e-9, sc):
                res.violate('inverse-routines-differ', '_ohm_quickInverse != _ohm_npinv on a symmetric matrix', case, q.tolist(), p.tolist())
        else:
            res.count('inv3-general-quick-is-transposed-inverse', int(arr_close(q, p.T, 1e-9, sc)))
            if not arr_close(q, p.T, 1e-9, sc):
                res.violate('inverse-quick-not-cofactor', '_ohm_quickInverse is not cofactor/det (= transposed inverse)', case, q.tolist(), p.T.tolist())

        def chk_i(t, q=q, case=case, sc=sc):
            g = t.flts(); h = t.flts()
            if not arr_close(g, q, 1e-10, sc):
                res.disagree('generated quickInverse', case, q.ravel().tolist(), g)
            if not arr_close(h, q, 1e-10, sc):
                res.disagree('model cramer3', case, q.ravel().tolist(), h)
        add('el.gen.inv3 ' + enc_list(m.ravel()), 'inv3', case, chk_i)
    for k in range(ctx.n(40, 800)):
        attempt(res, 'inverse3', k, _case_inverse3)

    # beta, n
    def _case_beta(k):
        a, b, c = 10 ** r.uniform(-10, -7, 3); ph = r.uniform(0, 2 * math.pi); th = r.uniform(0, math.pi)
        want = [float(de._beta(a, b, c, ph, th))] + [float(x) for x in de._n(ph, th)]
        case = dict(r=[a, b, c], phi=ph, theta=th)
        res.case(('beta', k))

        def chk_b(t, want=want, case=case):
            g = t.flts()
            if not close(g[0], want[0], 1e-12) or not all(close(x, y, 1e-12, 1.0) for x, y in zip(g[1:4], want[1:])):
                res.disagree('generated beta/n', case, want, g[:4])
            if not close(g[4], want[0], 1e-12):
                res.disagree('model betaN vs _beta', case, want[0], g[4])
        add('el.gen.beta ' + ' '.join(f2b(x) for x in (a, b, c, ph, th)), 'beta', case, chk_b)
    for k in range(ctx.n(30, 500)):
        attempt(res, 'beta', k, _case_beta)

    # rank conversions, vectors, rotations, elasticConstantToC, invert4rankTensor
    def _case_tensors(k):
        c6 = r.normal(size=(6, 6)) * 10 ** r.uniform(0, 11)
        if k % 2:
            c6 = (c6 + c6.T) / 2
        c4 = EF.convert2To4rankTensor(c6); back = EF.convert4To2rankTensor(c4)
        case = dict(kind='6x6', seed=k)
        res.case(('conv6', k))
        if not np.array_equal(back, c6):
            res.violate('rank-roundtrip-6x6', 'convert4To2(convert2To4(c)) != c', dict(c=c6.tolist()), back.tolist(), c6.tolist())

        def chk6(t, c4=c4, back=back, case=case):
            if not np.array_equal(np.array(t.flts()), c4.ravel()) or not np.array_equal(np.array(t.flts()), back.ravel()):
                res.disagree('convert2To4 / convert4To2', case, 'impl', 'model differs')
        add('el.conv6 ' + enc_list(c6.ravel()), 'conv6', case, chk6)

        t4 = r.normal(size=(3, 3, 3, 3))
        sym = k % 3 != 0
        if sym:
            t4 = (t4 + t4.transpose(1, 0, 2, 3)) / 2; t4 = (t4 + t4.transpose(0, 1, 3, 2)) / 2
        c2 = EF.convert4To2rankTensor(t4); back4 = EF.convert2To4rankTensor(c2)
        case4 = dict(kind='3x3x3x3', minor_symmetric=sym, seed=k)
        res.case(('conv4', k))
        if sym and not np.array_equal(back4, t4):
            res.violate('rank-roundtrip-4th', 'convert2To4(convert4To2(c)) != c for a tensor with the minor symmetries', dict(c=t4.tolist()), 'differs', 'equal')

        def chk4(t, c2=c2, back4=back4, case4=case4):
            if not np.array_equal(np.array(t.flts()), c2.ravel()) or not np.array_equal(np.array(t.flts()), back4.ravel()):
                res.disagree('convert4To2 / convert2To4', case4, 'impl', 'model differs')
        add('el.conv4 ' + enc_list(t4.ravel()), 'conv4', case4, chk4)

        v = r.normal(size=6); m3 = r.normal(size=(3, 3))
        w2 = EF.convertVecTo2rankTensor(v); w6 = EF.convert2rankToVec(m3)
        if not np.array_equal(EF.convert2rankToVec(w2), v):
            res.violate('vector-roundtrip', 'convert2rankToVec(convertVecTo2rankTensor(v)) != v', dict(v=v.tolist()))

        def chkv(t, w2=w2, w6=w6):
            if not np.array_equal(np.array(t.flts()), w2.ravel()) or not np.array_equal(np.array(t.flts()), w6):
                res.disagree('vector conversions', dict(v=v.tolist()), 'impl', 'model differs')
        add('el.vec %s %s' % (enc_list(v), enc_list(m3.ravel())), 'vec', {}, chkv)

        R = rand_rotation(r) if k % 4 else r.normal(size=(3, 3))
        a4 = EF.convert2To4rankTensor(EF.elasticConstantToC(*rand_cubic(r))) if k % 2 else t4
        a2 = r.normal(size=(3, 3)) * 1e8
        r4 = EF.rotateRank4Tensor(R, a4); r2 = EF.rotateRank2Tensor(R, a2)
        caser = dict(kind='rotate', orthogonal=bool(k % 4), seed=k)
        res.case(('rot', k))
        # oracle: T'_pquv = R_pi R_qj R_uk R_vl T_ijkl ; T'_ij = R_il R_jk T_lk
        if not arr_close(r4, np.einsum('pi,qj,uk,vl,ijkl->pquv', R, R, R, R, a4), 1e-11) or not arr_close(r2, R @ a2 @ R.T, 1e-11):
            res.violate('rotation-formula', 'rotateRank4Tensor/rotateRank2Tensor is not R R R R T / R T R^T', caser)

        def chkr(t, r4=r4, r2=r2, caser=caser):
            if not arr_close(t.flts(), r4, 1e-11) or not arr_close(t.flts(), r2, 1e-11):
                res.disagree('rotateRank4Tensor / rotateRank2Tensor', caser, 'impl', 'model differs')
        add('el.rot %s %s %s' % (enc_list(R.ravel()), enc_list(a4.ravel()), enc_list(a2.ravel())), 'rot', caser, chkr)

        cc = rand_cubic(r)
        ecm = EF.elasticConstantToC(*cc)

        def chke(t, ecm=ecm, cc=cc):
            if not np.array_equal(np.array(t.flts()), ecm.ravel()):
                res.disagree('elasticConstantToC', dict(c=cc), ecm.ravel().tolist(), 'model differs')
        add('el.ec ' + ' '.join(f2b(x) for x in cc), 'ec', {}, chke)

        # invert4rankTensor on a rotated stable stiffness (minor + major symmetric, positive definite)
        c4s = EF.rotateRank4Tensor(rand_rotation(r), EF.convert2To4rankTensor(ecm))
        i4 = EF.invert4rankTensor(c4s)
        ident = np.einsum('ijmn,mnkl->ijkl', i4, c4s)
        isym = 0.5 * (np.einsum('ik,jl->ijkl', np.eye(3), np.eye(3)) + np.einsum('il,jk->ijkl', np.eye(3), np.eye(3)))
        casei = dict(kind='invert4', c=list(cc), seed=k)
        res.case(('inv4', k))
        if not arr_close(ident, isym, 1e-9, 1.0):
            res.violate('invert4rankTensor-not-inverse', 'invert4rankTensor(c) : c is not the symmetric 4th-rank identity', casei, float(maxabs(ident - isym)), 0.0)

        def chki(t, i4=i4, casei=casei):
            if not arr_close(t.flts(), i4, 1e-8):
                res.disagree('invert4rankTensor', casei, 'impl', 'model differs')
        add('el.inv4 ' + enc_list(c4s.ravel()), 'inv4', casei, chki)
    for k in range(ctx.n(40, 600)):
        attempt(res, 'tensors', k, _case_tensors)
    return lines, checks


# ------------------------------------------------------------------ part C: Eshelby energies
def stiffness_pair(EF, r, kind):
    """(cM 6x6, cP 6x6 or None, description of the pair)"""
    if kind == 'iso':
        cm = rand_iso(r); M = EF.elasticConstantToC(*cm[:3])
        cp = rand_iso(r)
        return M, EF.elasticConstantToC(*cp[:3]), dict(kind=kind, cM=list(cm[:3]), cP=list(cp[:3]), E=cm[3], nu=cm[4])
    if kind == 'iso-hom':
        cm = rand_iso(r)
        return EF.elasticConstantToC(*cm[:3]), None, dict(kind=kind, cM=list(cm[:3]), cP=None, E=cm[3], nu=cm[4])
    if kind == 'cubic-hom':
        cm = rand_cubic(r)
        return EF.elasticConstantToC(*cm), None, dict(kind=kind, cM=list(cm), cP=None)
    cm, cp = rand_cubic(r), rand_cubic(r)
    return EF.elasticConstantToC(*cm), EF.elasticConstantToC(*cp), dict(kind=kind, cM=list(cm), cP=list(cp))


def make_se(EF, M, Pm, eig, rot=None, rotP=None, order='high', inverse='quick', nodes=None):
    se = EF.StrainEnergy('ellipsoid')
    if order != 'high':
        se.description.setLebedevIntegration(order)
    if inverse != 'quick':
        se.description.setOhmInverseFunction(inverse)
    if nodes is not None:
        se.description.midPhiGrid, se.description.midThetaGrid, se.description.midWeights = nodes
        se.description.dA = math.pi / 2
    if rot is not None:
        se.setRotationMatrix(rot)
    if rotP is not None:
        se.setRotationPrecipitate(rotP)
    se.setElasticTensor(M)
    if Pm is not None:
        se.setElasticTensorPrecipitate(Pm)
    se.setEigenstrain(eig)
    return se


def variants(se, rad):
    d = se.description
    return dict(ellipsoid=float(d.strainEnergyEllipsoid(rad)), ellipsoid2nd=float(d.strainEnergyEllipsoid2ndRank(rad)),
                bohm=float(d.strainEnergyBohm(rad)), bohm2nd=float(d.strainEnergyBohm2ndRank(rad)))


def part_energy(ctx, res, EF, r, lebedev_bad):
    """model vs implementation on the code's own 'low' nodes; direct oracle on all orders and on an
    independent product rule injected into the real description"""
    lines, checks = [], []
    exact_nodes = product_rule(*ctx.n((40, 80), (64, 128)))
    kinds = ['iso', 'iso-hom', 'cubic-hom', 'cubic']
    eig_kinds = ['dil', 'diag', 'full']
    N = ctx.n(16, 160)
    def _case_energy(k):
        kind = kinds[k % 4]; ek = eig_kinds[(k // 4) % 3]
        M, Pm, desc = stiffness_pair(EF, r, kind)
        eig = rand_eig(r, ek)
        rot = rand_rotation(r) if (k // 2) % 3 == 0 else None
        rotP = rot if (rot is not None and k % 2 == 0) else (rand_rotation(r) if (rot is not None and Pm is not None) else None)
        shape = ['sphere', 'prolate', 'oblate', 'triaxial'][(k + k // 4) % 4]
        a = 10 ** r.uniform(-9.5, -7.5)
        rad = {'sphere': np.array([a, a, a]), 'prolate': np.array([a, a, a * r.uniform(1.2, 6)]),
               'oblate': np.array([a, a, a / r.uniform(1.2, 6)]), 'triaxial': a * r.uniform(0.4, 2.5, 3)}[shape]
        order = ['low', 'mid', 'high'][k % 3]
        case = dict(desc, eig=eig.tolist(), eig_kind=ek, rot=None if rot is None else rot.tolist(), rotP=None if rotP is None else rotP.tolist(),
                    r=rad.tolist(), shape=shape, order=order)
        res.case(('energy', kind, ek, shape, order, rot is not None, k)); res.count('stiffness:' + kind); res.count('eig:' + ek); res.count('shape:' + shape); res.count('order:' + order)
        if k < 2:
            res.sample(case)
        se = make_se(EF, M, Pm, eig, rot, rotP, order)
        d = se.description; P = se.params
        V = 4 * math.pi / 3 * float(np.prod(rad))
        try:
            with np.errstate(all='ignore'):
                E = variants(se, rad)
                S = d.Sijmn(d.Dijkl(rad, P.cMatrix_4th))
        except np.linalg.LinAlgError as ex:
            res.violate('energy-evaluation-raises', 'strain energy evaluation raised ' + repr(ex), case); return
        if not all(math.isfinite(x) for x in E.values()):
            res.violate('energy-not-finite', 'strain energy is not finite for positive-definite stiffness', case, E, 'finite'); return
        escale = max(abs(x) for x in E.values())
        # ---- correspondence: the model evaluates the same quadrature (first cases use the small table)
        if k < ctx.n(8, 40):
            se_l = se if order == 'low' else make_se(EF, M, Pm, eig, rot, rotP, 'low')
            dl = se_l.description; Pl = se_l.params
            Sl = dl.Sijmn(dl.Dijkl(rad, Pl.cMatrix_4th))
            El = (float(dl.strainEnergyEllipsoid(rad)), float(dl.strainEnergyBohm(rad)))

            def chk_e(t, Sl=Sl, El=El, case=case, V=V):
                ms = t.flts(); g = t.flts()
                if not arr_close(ms, Sl, 1e-9, 1.0):
                    res.disagree('Eshelby tensor (sphInt/Dijkl/Sijmn)', case, 'impl', float(maxabs(np.array(ms) - Sl.ravel())))
                if not close(g[0], El[0], 1e-8, abs(El[0])) or not close(g[1], El[1], 1e-7, abs(El[0])) or not close(g[2], V, 1e-12):
                    res.disagree('strainEnergyEllipsoid / strainEnergyBohm / V', case, list(El) + [V], g)
            res.traces += 1
            lines.append('el.energy %s %s %s %s %s %s %s %s' % (enc_list(dl.midPhiGrid), enc_list(dl.midThetaGrid), enc_list(dl.midWeights), f2b(dl.dA),
                                                              enc_list(rad), enc_list(Pl.cMatrix_4th.ravel()), enc_list(Pl.cPrec_4th.ravel()), enc_list(Pl.eigenstrain.ravel())))
            checks.append(('energy', case, chk_e))
        # ---- direct oracle
        # positivity
        for nm, e in E.items():
            if not (e >= -1e-12 * escale):
                res.violate('negative-energy-' + nm, 'strain energy negative for positive-definite stiffness', case, e, '>= 0')
        # 6x6 vs 4th rank, homogeneous inclusion, independent reference
        if not close(E['ellipsoid'], E['ellipsoid2nd'], 1e-9, escale):
            res.violate('variants-ellipsoid-2nd-vs-4th', 'strainEnergyEllipsoid2ndRank != strainEnergyEllipsoid', case, E['ellipsoid2nd'], E['ellipsoid'])
        if not close(E['bohm'], E['bohm2nd'], 1e-8, escale):
            res.violate('variants-bohm-2nd-vs-4th', 'strainEnergyBohm2ndRank != strainEnergyBohm', case, E['bohm2nd'], E['bohm'])
        ref = bohm_reference(P.cMatrix_4th, P.cPrec_4th, S, P.eigenstrain, V)
        if not close(E['bohm'], ref, 1e-7, escale):
            res.violate('bohm-vs-9x9-reference', 'strainEnergyBohm differs from the 9x9 (pseudo-inverse) evaluation of the same formula', case, E['bohm'], ref)
        if Pm is None and not close(E['bohm'], E['ellipsoid'], 1e-8, escale):
            res.violate('homogeneous-bohm-vs-ellipsoid', 'cP = cM but strainEnergyBohm != strainEnergyEllipsoid', case, E['bohm'], E['ellipsoid'])
        if Pm is None:
            se_same = make_se(EF, M, M, eig, rot, rot, order)
            eb = float(se_same.description.strainEnergyBohm(rad))
            if not close(eb, E['ellipsoid'], 1e-8, escale):
                res.violate('homogeneous-bohm-vs-ellipsoid', 'cP set equal to cM but strainEnergyBohm != strainEnergyEllipsoid', case, eb, E['ellipsoid'])
        # scaling laws
        s = r.uniform(0.2, 5.0); cf = r.uniform(-3, 3)
        Es = variants(se, s * rad)
        se.setEigenstrain(cf * eig)
        Ec = variants(se, rad)
        se.setEigenstrain(eig)
        for nm in E:
            if not close(Es[nm], s ** 3 * E[nm], 1e-9, s ** 3 * escale):
                res.violate('size-scaling-' + nm, 'E(s r) != s^3 E(r)', dict(case, s=s), Es[nm], s ** 3 * E[nm])
            if not close(Ec[nm], cf ** 2 * E[nm], 1e-9, cf ** 2 * escale):
                res.violate('eigenstrain-scaling-' + nm, 'E(c eps) != c^2 E(eps)', dict(case, c=cf), Ec[nm], cf ** 2 * E[nm])
        if not close(float(se.compute(rad)), E['bohm'], 1e-12):
            res.violate('compute-is-bohm', 'compute() is not strainEnergyBohm for an ellipsoidal description', case)
        # the two inversion routines
        se_np = make_se(EF, M, Pm, eig, rot, rotP, order, 'numpy')
        enp = float(se_np.description.strainEnergyBohm(rad))
        if not close(enp, E['bohm'], 1e-9, escale):
            res.violate('inverse-routines-differ', "strain energy with 'numpy' inverse != with 'quick' inverse", case, enp, E['bohm'])
        # closed form: isotropic matrix = precipitate, sphere, dilatation
        if kind == 'iso-hom' and shape == 'sphere' and ek == 'dil':
            res.count('isotropic-sphere-closed-form')
            G = desc['cM'][2]; nu = desc['nu']
            want = 2 * G * (1 + nu) / (1 - nu) * eig[0, 0] ** 2 * V
            for nm, e in E.items():
                if not close(e, want, 1e-9):
                    res.violate('isotropic-sphere-closed-form-' + nm, 'energy of a dilatational sphere in an isotropic matrix != 2G(1+nu)/(1-nu) eps^2 V', case, e, want)
    for k in range(N):
        attempt(res, 'energy', k, _case_energy)
    # ---- isotropic sphere with a dilatation: every route to the energy gives 2G(1+nu)/(1-nu) eps^2 V
    def _case_isotropic_sphere(k):
        cm = rand_iso(r); M = EF.elasticConstantToC(*cm[:3]); G, nu = cm[2], cm[4]
        a = 10 ** r.uniform(-9.5, -7.5); rad = np.array([a, a, a]); eps = r.uniform(-0.03, 0.03)
        want = 2 * G * (1 + nu) / (1 - nu) * eps ** 2 * 4 * math.pi / 3 * a ** 3
        order = ['low', 'mid', 'high'][k % 3]
        se = make_se(EF, M, None if k % 2 else M, eps * np.eye(3), rand_rotation(r) if k % 3 == 0 else None, None, order)
        got = variants(se, rad)
        for nm in ('sphere', 'cube'):
            s2 = EF.StrainEnergy(nm); s2.setElasticTensor(M); s2.setEigenstrain(eps)
            got['khachaturyan-' + nm] = float(s2.compute(rad))
        case = dict(cM=list(cm[:3]), E=cm[3], nu=nu, eps=eps, r=a, order=order)
        res.case(('iso-sphere', k)); res.count('isotropic-sphere-closed-form')
        for nm, e in got.items():
            if not close(e, want, 1e-9):
                res.violate('isotropic-sphere-closed-form-' + nm, 'energy of a dilatational sphere in an isotropic matrix != 2G(1+nu)/(1-nu) eps^2 V', case, e, want)
    for k in range(ctx.n(6, 60)):
        attempt(res, 'isotropic-sphere', k, _case_isotropic_sphere)
    # ---- clauses that need an exact quadrature: own tables (failures carry the table's finding key) and injected product rule
    def _case_eshelby_components(k):
        cm = rand_iso(r); M = EF.elasticConstantToC(*cm[:3]); nu = cm[4]
        want = {'1111': (7 - 5 * nu) / (15 * (1 - nu)), '1122': (5 * nu - 1) / (15 * (1 - nu)), '1212': (4 - 5 * nu) / (15 * (1 - nu))}
        a = 10 ** r.uniform(-9.5, -7.5); rad = np.array([a, a, a])
        for order in ['low', 'mid', 'high', 'exact']:
            se = make_se(EF, M, None, 0.01 * np.eye(3), None, None, 'high' if order == 'exact' else order, nodes=exact_nodes if order == 'exact' else None)
            d = se.description
            S = d.Sijmn(d.Dijkl(rad, se.params.cMatrix_4th))
            got = {'1111': [S[0, 0, 0, 0], S[1, 1, 1, 1], S[2, 2, 2, 2]], '1122': [S[0, 0, 1, 1], S[1, 1, 2, 2], S[2, 2, 0, 0], S[1, 1, 0, 0]],
                   '1212': [S[0, 1, 0, 1], S[1, 2, 1, 2], S[0, 2, 2, 0], S[1, 0, 0, 1]]}
            bad = [(c, float(x)) for c in got for x in got[c] if not close(x, want[c], 1e-9, 1.0)]
            res.case(('eshelby-sphere', order, k)); res.count('eshelby-sphere-' + order)
            if bad:
                key = ('lebedev-inexact-order%d' % ORDERS[order]) if (order != 'exact' and ORDERS[order] in lebedev_bad) else 'eshelby-sphere-components-' + order
                res.violate(key, 'Eshelby tensor of the isotropic sphere (quadrature %s): component S%s = %.6f, textbook %.6f' % (order, bad[0][0], bad[0][1], want[bad[0][0]]),
                            dict(nu=nu, cM=list(cm[:3]), order=order), bad[:3], want)
    for k in range(ctx.n(6, 40)):
        attempt(res, 'eshelby-components', k, _case_eshelby_components)
    def _case_rotation_invariance(k):
        # rotation invariance: sphere + dilatation in a cubic matrix, matrix and precipitate rotated together;
        # ellipsoid with full eigenstrain in an isotropic matrix / precipitate pair
        if k % 2 == 0:
            M, Pm, desc = stiffness_pair(EF, r, 'cubic' if k % 4 == 0 else 'cubic-hom')
            a = 10 ** r.uniform(-9.5, -7.5); rad = np.array([a, a, a]); eig = rand_eig(r, 'dil'); what = 'cubic-sphere'
        else:
            M, Pm, desc = stiffness_pair(EF, r, 'iso')
            rad = 10 ** r.uniform(-9.5, -7.5) * r.uniform(0.4, 2.5, 3); eig = rand_eig(r, 'full'); what = 'isotropic-ellipsoid'
        R = rand_rotation(r)
        for order in ['low', 'mid', 'high', 'exact']:
            kw = dict(order='high' if order == 'exact' else order, nodes=exact_nodes if order == 'exact' else None)
            e0 = float(make_se(EF, M, Pm, eig, None, None, **kw).compute(rad))
            e1 = float(make_se(EF, M, Pm, eig, R, R if Pm is not None else None, **kw).compute(rad))
            res.case(('rotation', what, order, k)); res.count('rotation-invariance-' + order)
            tol = 1e-9 if what == 'isotropic-ellipsoid' else 1e-6
            if not close(e0, e1, tol):
                key = ('lebedev-inexact-order%d' % ORDERS[order]) if (order != 'exact' and ORDERS[order] in lebedev_bad and what == 'cubic-sphere') else 'rotation-invariance-%s-%s' % (what, order)
                res.violate(key, 'energy changes when the crystal axes are rotated (%s, quadrature %s)' % (what, order),
                            dict(desc, eig=eig.tolist(), r=rad.tolist(), rot=R.tolist(), order=order), e1, e0)
    for k in range(ctx.n(6, 40)):
        attempt(res, 'rotation-invariance', k, _case_rotation_invariance)
    return lines, checks


# ------------------------------------------------------------------ Lebedev tables
def part_lebedev(ctx, res, LN, r):
    """every table against the closed-form sphere moments of monomials up to its order"""
    bad_orders = {}
    def _case_lebedev(order):
        phi, theta, w = LN.loadPoints(order)
        x = np.sin(theta) * np.cos(phi); y = np.sin(theta) * np.sin(phi); z = np.cos(theta)
        mons = [(a, b, d - a - b) for d in range(0, 13) for a in range(d + 1) for b in range(d - a + 1)]
        if ctx.thorough:
            mons += [(a, b, c) for a in range(0, order + 1, 2) for b in range(0, order + 1 - a, 2) for c in range(0, order + 1 - a - b, 2) if a + b + c > 12]
        for _ in range(ctx.n(400, 3000)):
            d = int(r.integers(13, order + 1)); a = int(r.integers(0, d + 1)); b = int(r.integers(0, d - a + 1))
            t = (a, b, d - a - b)
            if r.random() < 0.7:
                t = tuple(2 * (v // 2) for v in t)
            mons.append(t)
        px = {e: x ** e for e in {m[0] for m in mons}}; py = {e: y ** e for e in {m[1] for m in mons}}; pz = {e: z ** e for e in {m[2] for m in mons}}
        worst = None
        for (a, b, c) in mons:
            q = float(np.sum(w * px[a] * py[b] * pz[c])); e = sphere_moment(a, b, c)
            res.evaluations += 1
            if abs(q - e) > 1e-11:
                if worst is None or (a + b + c, -abs(q - e)) < (sum(worst[0]), -abs(worst[1] - worst[2])):
                    worst = ((a, b, c), q, e)
        pts = np.round(np.stack([x, y, z], 1), 9)
        nuniq = len(np.unique(pts, axis=0))
        res.count('lebedev-monomials-order%d' % order, len(mons))
        res.nontrivial.add(('lebedev', order))
        if worst is not None or nuniq != len(w):
            bad_orders[order] = worst
            res.violate('lebedev-inexact-order%d' % order,
                        'loadPoints(%d): %d nodes, %d distinct; lowest-degree monomial not integrated exactly: x^%d y^%d z^%d -> %.12g, exact %.12g'
                        % ((order, len(w), nuniq) + (worst[0] + (worst[1], worst[2]) if worst else (0, 0, 0, 0.0, 0.0))),
                        dict(order=order, monomial=list(worst[0]) if worst else None, nodes=len(w), distinct=nuniq),
                        worst[1] if worst else nuniq, worst[2] if worst else len(w))
    for order in (53, 83, 131):
        attempt(res, 'lebedev', order, _case_lebedev)
    return bad_orders


# ------------------------------------------------------------------ part D: setter sequences
OPN = ['setShape', 'setConstantElasticEnergy', 'setElasticTensor(6x6)', 'setElasticTensor(3x3x3x3)', 'setElasticConstants', 'setModuli',
       'setElasticTensorPrecipitate(6x6)', 'setElasticTensorPrecipitate(3x3x3x3)', 'setElasticConsantsPrecipitate', 'setModuliPrecipitate',
       'setRotationMatrix', 'setRotationPrecipitate', 'setEigenstrain(scalar)', 'setEigenstrain(vector)', 'setEigenstrain(matrix)',
       'setAppliedStress(scalar)', 'setAppliedStress(vector)', 'setAppliedStress(matrix)']


def gen_moduli_args(r):
    E = 10 ** r.uniform(10, 11.6); nu = r.uniform(0.1, 0.42)
    v = consistent(E, nu)
    k = r.choice([2, 2, 2, 3, 1, 0])
    names = list(r.choice(MODS, size=k, replace=False)) if k else []
    g = {m: None for m in MODS}
    for m in names:
        g[m] = float(v[m])
    if names and r.random() < 0.1:
        g[names[0]] = 0.0
    return [g[m] for m in MODS]


def gen_op(r, EF):
    code = int(r.choice([0, 0, 1, 2, 3, 4, 4, 5, 5, 6, 7, 8, 9, 10, 10, 10, 11, 11, 12, 13, 14, 15, 16, 17, 17]))
    if code == 0:
        return (0, int(r.integers(0, 4)))
    if code in (1, 12, 15):
        return (code, float(r.uniform(-1, 1) * (1e8 if code != 12 else 0.03)))
    if code in (2, 6):
        if r.random() < 0.12:
            return (code, np.zeros((6, 6)))
        return (code, EF.elasticConstantToC(*(rand_cubic(r) if r.random() < 0.7 else rand_iso(r)[:3])))
    if code in (3, 7):
        c4 = EF.convert2To4rankTensor(EF.elasticConstantToC(*rand_cubic(r)))
        return (code, EF.rotateRank4Tensor(rand_rotation(r), c4) if r.random() < 0.5 else c4)
    if code in (4, 8):
        return (code,) + tuple(float(x) for x in rand_cubic(r))
    if code in (5, 9):
        return (code, gen_moduli_args(r))
    if code in (10, 11):
        return (code, rand_rotation(r) if r.random() < 0.9 else np.eye(3))
    if code in (13, 16):
        return (code, r.uniform(-1, 1, 3) * (0.03 if code == 13 else 2e8))
    m = r.uniform(-1, 1, (3, 3)); m = (m + m.T) / 2
    return (code, m * (0.03 if code == 14 else 2e8))


def enc_op(op):
    c = op[0]
    if c == 0:
        return '0 %d' % op[1]
    if c in (1, 12, 15):
        return '%d %s' % (c, f2b(op[1]))
    if c in (4, 8):
        return '%d %s %s %s' % (c, f2b(op[1]), f2b(op[2]), f2b(op[3]))
    if c in (5, 9):
        return '%d %s' % (c, ' '.join(opt_tok(x) for x in op[1]))
    return '%d %s' % (c, enc_list(np.asarray(op[1]).ravel()))


def apply_op(se, op):
    c = op[0]
    if c == 0:
        [lambda: se.setShape('constant'), se.setSpherical, se.setCuboidal, se.setEllipsoidal][op[1]]()
    elif c == 1: se.setConstantElasticEnergy(op[1])
    elif c in (2, 3): se.setElasticTensor(op[1])
    elif c == 4: se.setElasticConstants(op[1], op[2], op[3])
    elif c == 5: se.setModuli(*op[1])
    elif c in (6, 7): se.setElasticTensorPrecipitate(op[1])
    elif c == 8: se.setElasticConsantsPrecipitate(op[1], op[2], op[3])
    elif c == 9: se.setModuliPrecipitate(*op[1])
    elif c == 10: se.setRotationMatrix(op[1])
    elif c == 11: se.setRotationPrecipitate(op[1])
    elif c in (12, 13, 14): se.setEigenstrain(op[1])
    else: se.setAppliedStress(op[1])


SHAPES = ['constant', 'sphere', 'cube', 'ellipsoid']


def moduli_accepted(args):
    """moduliToC needs two moduli that are given and non-zero (any two form one of the 15 pairs)"""
    return sum(1 for x in args if x) >= 2


def apply_flag(se, op):
    """one setter call; 'F' = the call raised for an input it is entitled to reject (fewer than two moduli);
    any other exception propagates (and becomes a violation of the case)"""
    if op[0] in (5, 9) and not moduli_accepted(op[1]):
        try:
            with np.errstate(all='ignore'):
                apply_op(se, op)
        except (TypeError, ZeroDivisionError):
            return 'F'
        raise AssertionError('%s accepted fewer than two moduli: %r' % (OPN[op[0]], op[1]))
    with np.errstate(all='ignore'):
        apply_op(se, op)
    return 'T'


def run_ops(EF, shape, ops):
    se = EF.StrainEnergy(SHAPES[shape])
    flags = ''
    for op in ops:
        flags += apply_flag(se, op)
    return se, flags


def expected_eig(ops):
    """the eigenstrain tensor an object must hold: what its last setEigenstrain call supplied"""
    e = np.zeros((3, 3)); kind = 'never-set'
    for op in ops:
        if op[0] == 12:
            e = op[1] * np.identity(3); kind = 'scalar'
        elif op[0] == 13:
            e = np.diag(np.asarray(op[1], dtype=float)); kind = 'vector'
        elif op[0] == 14:
            e = np.array(op[1], dtype=float); kind = 'matrix'
    return e, kind


def energy_of(se, fs, rad):
    """compute() where it is defined: a Khachaturyan / Eshelby description needs a matrix tensor"""
    if fs['desc'] != 0 and not np.any(fs['cM4']):
        return float('nan')
    with np.errstate(all='ignore'):
        return float(se.compute(rad))


def final_state(se):
    P = se.params
    z = lambda a, shape: np.array(a, dtype=float, copy=True) if np.shape(a) == shape else np.zeros(shape)
    return dict(desc=DESC_CODE[type(se.description).__name__], cM4=z(P.cMatrix_4th, (3, 3, 3, 3)), cM2=z(P.cMatrix_2nd, (6, 6)),
                cP4=z(P.cPrec_4th, (3, 3, 3, 3)), cP2=z(P.cPrec_2nd, (6, 6)), stress=z(P.appliedStress, (3, 3)),
                strain=z(P.appliedStrain, (3, 3)), eig=z(P.eigenstrain, (3, 3)))


FIELDS = ['cM4', 'cM2', 'cP4', 'cP2', 'stress', 'strain', 'eig']


def op_descr(ops):
    return [OPN[o[0]] + (':%d' % o[1] if o[0] == 0 else '') for o in ops]


def part_sequences(ctx, res, EF, r, nseq=None):
    lines, checks = [], []
    def _case_sequences(k):
        shape = int(r.integers(0, 4))
        nops = int(r.integers(1, ctx.n(25, 200))) if r.random() < 0.85 else int(r.integers(1, 5))
        ops = [gen_op(r, EF) for _ in range(nops)]
        _case_sequences.info = describe_family([shape], [(0, op) for op in ops])
        se, flags = run_ops(EF, shape, ops)
        fs = final_state(se)
        a = 10 ** r.uniform(-9.5, -7.5); rad = a * r.uniform(0.5, 2, 3)
        en = energy_of(se, fs, rad) if fs['desc'] != 3 else float('nan')
        if fs['desc'] in (1, 2) and not np.any(fs['cM4']):
            res.count('compute-undefined-without-stiffness')
        case = dict(shape=shape, ops=op_descr(ops), seq=k, n=nops)
        want_eig, ekind = expected_eig(ops)
        if not np.array_equal(fs['eig'], want_eig):
            res.violate('eigenstrain-not-as-supplied:' + str(ekind), 'after the sequence the eigenstrain tensor is not what the last setEigenstrain call supplied',
                        case, fs['eig'].tolist(), want_eig.tolist())
        res.case(('seq', k, nops, shape), nops >= 3); res.count('seq-ops', nops); res.traces += 1
        for o in ops:
            res.count('op:' + OPN[o[0]])
        res.count('final-desc-%d' % fs['desc'])
        if k == 0:
            res.sample(case)

        def chk_s(t, fs=fs, flags=flags, en=en, case=case):
            mf = t.tok()[1:]
            if mf != flags:
                res.disagree('setter raised / returned', case, flags, mf); return
            if t.nat() != fs['desc']:
                res.disagree('description after the sequence', case, fs['desc'], 'model differs'); return
            for f in FIELDS:
                g = t.flts()
                tol = 1e-7 if f == 'strain' else 1e-10
                if not arr_close(g, fs[f], tol):
                    res.disagree('final ' + f, case, fs[f].ravel().tolist(), g); return
            me = t.flt()
            if fs['desc'] != 3 and math.isfinite(en) and not close(me, en, 1e-9):
                res.disagree('compute() after the sequence', case, en, me)
        lines.append('el.seq %d %d %s %s' % (shape, len(ops), ' '.join(enc_op(o) for o in ops), enc_list(rad)))
        checks.append(('seq', case, chk_s))
    for k in range(nseq or ctx.n(120, 3000)):
        attempt(res, 'sequences', k, _case_sequences)
    return lines, checks


def part_order_oracle(ctx, res, EF, r, n=None):
    """direct oracle for the order clause: the same rotation / stiffness / stress / eigenstrain supplied in two
    orders gives the same parameters and description; and the applied strain reproduces the applied stress"""
    def _case_setter_order(k):
        shape = int(r.integers(0, 4))
        items = {
            'matrix': (int(r.choice([2, 3, 4, 5])),),
            'rotation': (10, rand_rotation(r)),
            'eigenstrain': (14, rand_eig(r, 'full')),
        }
        items['matrix'] = {2: lambda: (2, EF.elasticConstantToC(*rand_cubic(r))), 3: lambda: (3, EF.convert2To4rankTensor(EF.elasticConstantToC(*rand_cubic(r)))),
                           4: lambda: (4,) + tuple(float(x) for x in rand_cubic(r)), 5: lambda: (5, [float(10 ** r.uniform(10, 11.5)), float(r.uniform(0.1, 0.4)), None, None, None, None])}[items['matrix'][0]]()
        if r.random() < 0.6:
            items['precipitate'] = (6, EF.elasticConstantToC(*rand_cubic(r)))
            if r.random() < 0.6:
                items['rotationPrec'] = (11, rand_rotation(r))
        if r.random() < 0.6:
            m = r.uniform(-1, 1, (3, 3)) * 2e8
            items['stress'] = (17, (m + m.T) / 2)
        names = list(items)
        o1 = [names[i] for i in r.permutation(len(names))]
        o2 = [names[i] for i in r.permutation(len(names))]
        if r.random() < 0.4:
            o2 = o2 + [str(r.choice(names))]          # something supplied twice
        ses = []
        for o in (o1, o2):
            se, _ = run_ops(EF, shape, [items[nm] for nm in o])
            ses.append(final_state(se))
        case = dict(shape=shape, order1=o1, order2=o2, items={nm: (OPN[items[nm][0]]) for nm in names}, seed=k)
        res.case(('order', k, tuple(o1), tuple(o2))); res.count('order-pairs')
        diff = [f for f in FIELDS if not arr_close(ses[0][f], ses[1][f], 1e-9)]
        if ses[0]['desc'] != ses[1]['desc']:
            diff.append('description')
        if diff:
            late = lambda o: [nm for nm in o[o.index('matrix') + 1:] if nm != 'eigenstrain']
            cause = sorted(set(late(o1)) | set(late(o2))) or ['nothing-after-matrix']
            res.violate('setter-order:' + '+'.join(cause), 'the same rotation / stiffness / stress supplied in two orders gives different %s' % ', '.join(diff),
                        case, {f: np.asarray(ses[1][f]).ravel()[:6].tolist() if f != 'description' else ses[1]['desc'] for f in diff[:2]},
                        {f: np.asarray(ses[0][f]).ravel()[:6].tolist() if f != 'description' else ses[0]['desc'] for f in diff[:2]})
        # applied strain = compliance : applied stress, with the 4th-rank contraction
        st = ses[0]
        if np.any(st['stress']) and np.any(st['cM4']):
            back = np.einsum('ijkl,kl->ij', st['cM4'], st['strain'])
            if not arr_close(back, st['stress'], 1e-8):
                res.violate('applied-strain-not-inverse', 'cMatrix_4th : appliedStrain != appliedStress', case, back.tolist(), st['stress'].tolist())
    for k in range(n or ctx.n(60, 1500)):
        attempt(res, 'setter-order', k, _case_setter_order)


# ------------------------------------------------------------------ part E: several live objects
def gen_object_ops(r, EF):
    """the calls one object receives: random setters of all kinds, mostly including a stiffness and an eigenstrain
    (scalar / 3-vector / matrix equally likely)"""
    ops = [gen_op(r, EF) for _ in range(int(r.integers(0, 7)))]
    if r.random() < 0.85:
        ops.insert(int(r.integers(0, len(ops) + 1)), gen_op_of(r, EF, int(r.choice([2, 4, 4, 5]))))
    if r.random() < 0.9:
        ops.insert(int(r.integers(0, len(ops) + 1)), gen_op_of(r, EF, int(r.choice([12, 13, 13, 14]))))
    return ops or [gen_op(r, EF)]


def gen_op_of(r, EF, code):
    for _ in range(400):
        op = gen_op(r, EF)
        if op[0] == code and not (code in (5, 9) and not moduli_accepted(op[1])):
            return op
    return (12, 0.01)


def interleave(r, per_obj, mode):
    """merge the per-object call lists into one sequence of (object, call), keeping each object's order"""
    if mode == 'sequential':
        return [(j, op) for j, ops in enumerate(per_obj) for op in ops]
    idx = [j for j, ops in enumerate(per_obj) for _ in ops]
    idx = [idx[i] for i in r.permutation(len(idx))]
    pos = [0] * len(per_obj); out = []
    for j in idx:
        out.append((j, per_obj[j][pos[j]])); pos[j] += 1
    return out


def run_family(EF, shapes, seq):
    objs = [EF.StrainEnergy(SHAPES[sh]) for sh in shapes]
    flags = ''
    for j, op in seq:
        flags += apply_flag(objs[j], op)
    return objs, flags


def family_failure(EF, shapes, seq, rad):
    """object independence on the real code: every object, read AFTER all objects were configured, must equal a
    freshly built single object that received only its own calls, and hold the eigenstrain supplied to it.
    Returns (key, what, observed, required) of the first failure or None."""
    objs, _ = run_family(EF, shapes, seq)
    snaps = [final_state(o) for o in objs]                 # copies, taken before anything else is built
    ens = [energy_of(o, fs, rad) for o, fs in zip(objs, snaps)]
    for j in range(len(shapes)):
        own = [op for i, op in seq if i == j]
        want_eig, ekind = expected_eig(own)
        if not np.array_equal(snaps[j]['eig'], want_eig):
            return ('object-independence:eigenstrain-%s' % ekind,
                    'object %d of %d live objects does not hold the eigenstrain supplied to it (last supplied as %s) once the others are configured' % (j, len(shapes), ekind),
                    snaps[j]['eig'].tolist(), want_eig.tolist())
    for j in range(len(shapes)):
        own = [op for i, op in seq if i == j]
        ref, _ = run_ops(EF, shapes[j], own)
        fr = final_state(ref)
        diff = [f for f in FIELDS if not arr_close(snaps[j][f], fr[f], 1e-12)]
        if snaps[j]['desc'] != fr['desc']:
            diff.append('description')
        if diff:
            return ('object-independence:' + '+'.join(diff), 'object %d differs from a single object given the same calls in: %s' % (j, ', '.join(diff)),
                    {f: (np.asarray(snaps[j][f]).ravel()[:9].tolist() if f != 'description' else snaps[j]['desc']) for f in diff[:2]},
                    {f: (np.asarray(fr[f]).ravel()[:9].tolist() if f != 'description' else fr['desc']) for f in diff[:2]})
        er = energy_of(ref, fr, rad)
        if math.isfinite(er) and not close(ens[j], er, 1e-12):
            return ('object-independence:energy', 'compute() of object %d differs from a single object given the same calls' % j, ens[j], er)
    return None


def shrink_family(EF, shapes, seq, rad, key):
    """greedy: drop calls / objects while the same failure key persists"""
    def fails(sh, sq):
        try:
            f = family_failure(EF, sh, sq, rad)
        except Exception:
            return False
        return f is not None and f[0] == key
    changed = True; trials = 0
    while changed and trials < 400:
        changed = False
        for i in range(len(seq) - 1, -1, -1):
            trials += 1
            cand = seq[:i] + seq[i + 1:]
            if cand and fails(shapes, cand):
                seq = cand; changed = True
    used = sorted({j for j, _ in seq})
    if len(used) < len(shapes) and len(used) >= 1:
        remap = {j: n for n, j in enumerate(used)}
        sh2 = [shapes[j] for j in used]; sq2 = [(remap[j], op) for j, op in seq]
        if fails(sh2, sq2):
            shapes, seq = sh2, sq2
    return shapes, seq


def describe_family(shapes, seq):
    def val(op):
        if op[0] in (12, 13, 14, 1, 15, 16, 17):
            return np.asarray(op[1]).ravel().tolist() if np.ndim(op[1]) else float(op[1])
        if op[0] in (4, 8):
            return list(op[1:])
        if op[0] in (5, 9):
            return dict(zip(MODS, op[1]))
        if op[0] == 0:
            return SHAPES[op[1]]
        return '<%s array>' % 'x'.join(map(str, np.shape(op[1])))
    return dict(objects=[SHAPES[x] for x in shapes], calls=[dict(obj=j, call=OPN[op[0]], arg=val(op)) for j, op in seq])


def part_objects(ctx, res, EF, r, n=None):
    lines, checks = [], []

    def _case_objects(k):
        K = int(r.integers(2, 5))
        shapes = [int(r.integers(0, 4)) for _ in range(K)]
        per_obj = [gen_object_ops(r, EF) for _ in range(K)]
        mode = 'sequential' if k % 3 == 0 else 'interleaved'
        seq = interleave(r, per_obj, mode)
        a = 10 ** r.uniform(-9.5, -7.5); rad = a * r.uniform(0.5, 2, 3)
        _case_objects.info = describe_family(shapes, seq)
        res.case(('objects', k, K, len(seq), mode)); res.count('objects-%d' % K); res.count('objects-' + mode); res.count('object-calls', len(seq)); res.traces += 1
        for j, op in seq:
            res.count('obj-op:' + OPN[op[0]])
        if k == 0:
            res.sample(describe_family(shapes, seq))
        f = family_failure(EF, shapes, seq, rad)
        if f is not None:
            sh2, sq2 = shrink_family(EF, shapes, seq, rad, f[0])
            f2 = family_failure(EF, sh2, sq2, rad) or f
            res.violate(f[0], f2[1], dict(describe_family(sh2, sq2), r=rad.tolist(), shrunk_from=len(seq), case=k), f2[2], f2[3])
        # correspondence with the family model
        objs, flags = run_family(EF, shapes, seq)
        snaps = [final_state(o) for o in objs]
        ens = [energy_of(o, fs, rad) if fs['desc'] != 3 else float('nan') for o, fs in zip(objs, snaps)]
        case = dict(describe_family(shapes, seq), case=k)

        def chk(t, snaps=snaps, flags=flags, ens=ens, case=case):
            mf = t.tok()[1:]
            if mf != flags:
                res.disagree('family: setter raised / returned', case, flags, mf); return
            for j, fs in enumerate(snaps):
                if t.nat() != fs['desc']:
                    res.disagree('family: description of object %d' % j, case, fs['desc'], 'model differs'); return
                for f in FIELDS:
                    g = t.flts()
                    if not arr_close(g, fs[f], 1e-7 if f == 'strain' else 1e-10):
                        res.disagree('family: final %s of object %d' % (f, j), case, fs[f].ravel().tolist(), g); return
                me = t.flt()
                if fs['desc'] != 3 and math.isfinite(ens[j]) and not close(me, ens[j], 1e-9):
                    res.disagree('family: compute() of object %d' % j, case, ens[j], me); return
        lines.append('el.fam %d %s %d %s %s' % (K, ' '.join(str(x) for x in shapes), len(seq),
                                               ' '.join('%d %s' % (j, enc_op(op)) for j, op in seq), enc_list(rad)))
        checks.append(('family', case, chk))
    for k in range(n or ctx.n(80, 1500)):
        attempt(res, 'objects', k, _case_objects)

    def _case_cross(k):
        # eps^2 and s^3 scaling, closed form: evaluated ACROSS objects that were all configured before any is evaluated
        shape = ['sphere', 'cube', 'ellipsoid', 'ellipsoid'][k % 4]
        iso = (k // 4) % 2 == 0
        cm = rand_iso(r) if iso else rand_cubic(r)
        ekind = ['scalar', 'vector', 'vector', 'matrix'][(k // 2) % 4]
        if ekind == 'scalar' or (iso and k % 3 == 0):
            e0 = r.uniform(0.002, 0.03); base = {'scalar': e0, 'vector': [e0, e0, e0], 'matrix': (e0 * np.eye(3))}[ekind]
            dil = True
        elif ekind == 'vector':
            base = r.uniform(-0.03, 0.03, 3).tolist(); dil = False
        else:
            base = rand_eig(r, 'full'); dil = False
        kf = float(r.uniform(1.5, 4)); sf = float(r.uniform(0.3, 3))
        a = 10 ** r.uniform(-9.5, -7.5)
        rad = np.array([a, a, a]) if (shape != 'ellipsoid' or k % 8 < 4) else a * r.uniform(0.5, 2, 3)
        scale = lambda e, f: (np.asarray(e) * f).tolist() if np.ndim(e) == 1 else (np.asarray(e) * f if np.ndim(e) else e * f)

        def make(e):
            se = EF.StrainEnergy(shape); se.setElasticConstants(*cm[:3]); se.setEigenstrain(e); return se
        A = make(base); B = make(scale(base, kf)); C = make(base)
        with np.errstate(all='ignore'):
            eA, eB, eC = float(A.compute(rad)), float(B.compute(rad)), float(C.compute(sf * rad))
        case = dict(shape=shape, cM=list(cm[:3]), eigenstrain=np.asarray(base).tolist(), supplied_as=ekind, k=kf, s=sf, r=rad.tolist(),
                    calls='A: setElasticConstants, setEigenstrain(e); B: same with k*e; C: same as A; then A.compute(r), B.compute(r), C.compute(s r)')
        res.case(('cross', k, shape, ekind)); res.count('cross-objects:' + ekind)
        if not close(eB, kf ** 2 * eA, 1e-9):
            res.violate('eigenstrain-scaling-across-objects:' + ekind, 'two live objects with eigenstrains e and k e: E_B != k^2 E_A', case, eB / eA if eA else eB, kf ** 2)
        if not close(eC, sf ** 3 * eA, 1e-9):
            res.violate('size-scaling-across-objects:' + ekind, 'two live objects, radii r and s r: E_C != s^3 E_A', case, eC / eA if eA else eC, sf ** 3)
        if iso and dil and rad[0] == rad[1] == rad[2]:
            G, lam = cm[2], cm[1]; nu = lam / (2 * (lam + G))
            for nm, se, f in (('A', A, 1.0), ('B', B, kf)):
                e0v = float(np.asarray(base).ravel()[0]) * f
                want = 2 * G * (1 + nu) / (1 - nu) * e0v ** 2 * 4 * math.pi / 3 * a ** 3
                got = float(se.compute(rad))
                if not close(got, want, 1e-9):
                    res.violate('isotropic-sphere-closed-form-across-objects:' + ekind,
                                'object %s of several live objects: energy != 2G(1+nu)/(1-nu) eps^2 V for ITS eigenstrain' % nm, case, got, want)
    for k in range(ctx.n(48, 800)):
        attempt(res, 'cross-objects', k, _case_cross)
    return lines, checks


# ------------------------------------------------------------------ part F: history purity of ONE object
# One StrainEnergy object receives a random sequence of calls: every public setter in every input form, the
# description-level settings (quadrature, 3x3 inverse routine), the aspect-ratio search settings, mixed with
# observations (compute on one / several radii triples, the five energy variants of the ellipsoidal description,
# the two equilibrium aspect-ratio searches) at repeated and varying aspect ratios.  ORACLE (fresh-object
# equivalence): every observation equals the observation on a FRESHLY CONSTRUCTED object that is given only the
# settings in force at that moment (last successful call of every kind, canonical order).  The settings in force are
# tracked by a small reference (`RefSettings`) that never reads the object.
H_SHAPE_ARGS = ['constant', 'SPHERE', 'Cube', 'ellipsoid', 'plate', 'NEEDLE', 'Constant', 'sphere', 'CUBE', 'Ellipsoid']
H_SHAPE_CODE = {'CONSTANT': 0, 'SPHERE': 1, 'CUBE': 2, 'ELLIPSOID': 3, 'PLATE': 3, 'NEEDLE': 3}
H_DESC_CLS = ['ConstantEnergyDescription', 'SphericalEnergyDescription', 'CuboidalEnergyDescription', 'EllipsoidalEnergyDescription']
_VOIGT = {(0, 0): 0, (1, 1): 1, (2, 2): 2, (1, 2): 3, (2, 1): 3, (0, 2): 4, (2, 0): 4, (0, 1): 5, (1, 0): 5}


def own_2to4(c6):
    """6x6 -> 3x3x3x3 written out here (independent of the code's convert2To4rankTensor)"""
    c6 = np.asarray(c6, dtype=float); out = np.zeros((3, 3, 3, 3))
    for (i, j), I in _VOIGT.items():
        for (k, l), J in _VOIGT.items():
            out[i, j, k, l] = c6[I, J]
    return out


def own_4to2(c4):
    pairs = [(0, 0), (1, 1), (2, 2), (1, 2), (0, 2), (0, 1)]
    return np.array([[c4[a + b] for b in pairs] for a in pairs], dtype=float)


def hop_kind(h):
    """short name of a history call (for histograms, keys and the replay text)"""
    if h[0] == 'set':
        return OPN[h[1][0]] + (':%d' % h[1][1] if h[1][0] == 0 else '')
    if h[0] == 'prop':
        return 'unrotated_c%s_4th=(%s)' % ('Matrix' if h[1] == 'matrix' else 'Prec', 'x'.join(map(str, np.shape(h[2]))))
    if h[0] == 'shape':
        return 'setShape(%r)' % (h[1],) if h[2] == 'str' else 'setShape(%s())' % H_DESC_CLS[H_SHAPE_CODE[h[1].upper()]]
    if h[0] == 'quad':
        return 'description.setLebedevIntegration(%r)' % h[2] if h[1] == 'lebedev' else 'description.setIntegrationIntervals(%d, %d, %r)' % tuple(h[2:5])
    if h[0] == 'inverse':
        return 'description.setOhmInverseFunction(%r)' % h[1]
    if h[0] == 'compute':
        return 'compute(%s)' % ('r' if np.ndim(h[1]) == 1 else '%d radii' % len(h[1]))
    if h[0] == 'variants':
        return 'description.strainEnergy{Ellipsoid,Ellipsoid2ndRank,Bohm,Bohm2ndRank,EllipsoidWithStress}(r)'
    if h[0] == 'eqAR':
        return 'eqAR_by%s(%s)' % ('Search' if h[1] == 'search' else 'GR', h[4])
    if h[0] == 'arRes':
        return 'setAspectRatioResolution'
    if h[0] == 'ifmethod':
        return 'setInterfacialEnergyMethod(%r)' % h[1]
    return h[0]


def hop_json(h):
    """replayable JSON form of one history call (arrays in full)"""
    def j(x):
        if isinstance(x, np.ndarray):
            return {'array': x.tolist()}
        if isinstance(x, (tuple, list)):
            return [j(v) for v in x]
        if isinstance(x, (np.floating, np.integer)):
            return x.item()
        return x
    return j(list(h))


def hop_from_json(x):
    def u(v):
        if isinstance(v, dict) and 'array' in v:
            return np.array(v['array'], dtype=float)
        if isinstance(v, list):
            return tuple(u(w) for w in v)
        return v
    h = u(x)
    if h[0] in ('set',):
        op = h[1]
        if op[0] in (5, 9):
            op = (op[0], list(op[1]))
        return ('set', op)
    return h


def is_obs(h):
    return h[0] in ('compute', 'variants', 'eqAR')


class RefSettings:
    """the settings in force, tracked from the calls alone (never reads the object): last successful call of each
    kind, the description kind as update()/setShape/setConstantElasticEnergy define it, and the description-level
    settings, which live in the description OBJECT and therefore start afresh whenever a new one is created"""
    def __init__(self, shape):
        self.desc = shape
        self.constE = self.rot = self.rotP = self.stress = self.matrix = self.prec = self.eig = None
        self.quad = self.inverse = self.arRes = self.ifmethod = None
        self.matrix_set = False           # the matrix tensor in force has a non-zero entry

    def _new_desc(self, d):
        self.desc = d; self.quad = self.inverse = None

    def _update(self):
        if self.matrix_set:
            if self.desc == 0:
                self._new_desc(1)
        else:
            self._new_desc(0)

    def applicable(self, h):
        """description-level calls exist on the ellipsoidal description only"""
        return self.desc == 3 if h[0] in ('quad', 'inverse', 'variants') else True

    def defined(self):
        """compute() is defined: a Khachaturyan / Eshelby description needs a matrix stiffness"""
        return self.desc == 0 or self.matrix_set

    def record(self, h):
        k = h[0]
        if k == 'set':
            c = h[1][0]
            if c == 0:
                self._new_desc(h[1][1])
            elif c == 1:
                self.constE = h; self._new_desc(0)
            elif c in (2, 3, 4, 5):
                self.matrix = h
                self.matrix_set = bool(np.any(h[1][1])) if c in (2, 3) else bool(any(h[1][1:])) if c == 4 else True
                self._update()
            else:
                setattr(self, {6: 'prec', 7: 'prec', 8: 'prec', 9: 'prec', 10: 'rot', 11: 'rotP', 12: 'eig', 13: 'eig', 14: 'eig',
                               15: 'stress', 16: 'stress', 17: 'stress'}[c], h)
                if c not in (12, 13, 14) and self.matrix_set:
                    self._update()
        elif k == 'prop':
            if h[1] == 'matrix':
                self.matrix = h; self.matrix_set = bool(np.any(h[2])); self._update()
            else:
                self.prec = h
                if self.matrix_set:
                    self._update()
        elif k == 'shape':
            self._new_desc(H_SHAPE_CODE[h[1].upper()])
        elif k in ('quad', 'inverse', 'arRes', 'ifmethod'):
            setattr(self, k, h)

    def calls(self):
        """the canonical configuration of a fresh object: one call per kind"""
        out = [h for h in (self.constE, self.rot, self.rotP, self.stress, self.matrix, self.prec, self.eig) if h is not None]
        return out, [h for h in (self.quad, self.inverse, self.arRes, self.ifmethod) if h is not None]

    def version(self):
        return tuple(id(x) for x in (self.constE, self.rot, self.rotP, self.stress, self.matrix, self.prec, self.eig, self.quad, self.inverse,
                                     self.arRes, self.ifmethod)) + (self.desc,)


def _shape_factor(kind):
    from kawin.precipitation import ShapeFactor
    sf = ShapeFactor()
    sf.setNeedleShape() if kind == 'needle' else sf.setPlateShape()
    return sf


def hist_call(EF, se, h):
    """one call on the real object; observations return a flat float array, setters return None"""
    k = h[0]
    with np.errstate(all='ignore'):
        if k == 'set':
            return apply_flag(se, h[1])
        if k == 'prop':
            setattr(se, 'unrotated_cMatrix_4th' if h[1] == 'matrix' else 'unrotated_cPrec_4th', np.array(h[2]))
        elif k == 'shape':
            se.setShape(h[1] if h[2] == 'str' else getattr(EF, H_DESC_CLS[H_SHAPE_CODE[h[1].upper()]])())
        elif k == 'quad':
            se.description.setLebedevIntegration(h[2]) if h[1] == 'lebedev' else se.description.setIntegrationIntervals(h[2], h[3], h[4])
        elif k == 'inverse':
            se.description.setOhmInverseFunction(h[1])
        elif k == 'arRes':
            se.setAspectRatioResolution(h[1], h[2])
        elif k == 'ifmethod':
            se.setInterfacialEnergyMethod(h[1])
        elif k == 'clearCache':
            se.clearCache()
        elif k == 'compute':
            return np.atleast_1d(np.asarray(se.compute(np.array(h[1])), dtype=float)).ravel()
        elif k == 'variants':
            d = se.description; rad = np.array(h[1])
            return np.array([float(f(rad)) for f in (d.strainEnergyEllipsoid, d.strainEnergyEllipsoid2ndRank, d.strainEnergyBohm, d.strainEnergyBohm2ndRank,
                                                    d.strainEnergyEllipsoidWithStress)])
        elif k == 'eqAR':
            f = se.eqAR_bySearch if h[1] == 'search' else se.eqAR_byGR
            R = np.array(h[2]) if np.ndim(h[2]) else float(h[2])
            return np.atleast_1d(np.asarray(f(R, h[3], _shape_factor(h[4])), dtype=float)).ravel()
        else:
            raise AssertionError('unknown history call %r' % (k,))
    return 'T'


def fresh_object(EF, ref):
    """a newly constructed object given only the settings in force"""
    se = EF.StrainEnergy(SHAPES[ref.desc])
    setters, rest = ref.calls()
    for h in setters:
        hist_call(EF, se, h)
    if DESC_CODE[type(se.description).__name__] != ref.desc:
        se.setShape(SHAPES[ref.desc])
    for h in rest:
        hist_call(EF, se, h)
    return se


def obs_equal(a, b, exact=False):
    a = np.asarray(a, dtype=float); b = np.asarray(b, dtype=float)
    if a.shape != b.shape:
        return False
    if exact:
        return bool(np.array_equal(a, b, equal_nan=True))
    return all(close(x, y, 1e-9) for x, y in zip(a, b))


def run_history(EF, shape, hops, only=None, trace=None):
    """the calls on ONE object; returns (failures, stats).  failures: list of dict(key, index, what, observed, required);
    `only` restricts the fresh-object comparison to one failure key (shrinking)."""
    se = EF.StrainEnergy(SHAPES[shape])
    ref = RefSettings(shape)
    fails, stats = [], dict(obs=0, undefined=0, skipped=0, fresh=0)
    memo = {}
    for i, h in enumerate(hops):
        if not ref.applicable(h):
            stats['skipped'] += 1
            continue
        if is_obs(h):
            if not ref.defined():
                stats['undefined'] += 1
                continue
            kind = 'compute' if h[0] == 'compute' else 'variants' if h[0] == 'variants' else 'eqAR_by' + ('Search' if h[1] == 'search' else 'GR')
            key = 'history:%s:%s' % (kind, SHAPES[ref.desc])
            if only is not None and only.split(':')[1] != kind:
                hist_call(EF, se, h)             # still part of the history
                continue
            got = hist_call(EF, se, h)
            stats['obs'] += 1
            if trace is not None and h[0] != 'eqAR':
                # (model: compute = strainEnergyBohm for an ellipsoid; of the five variants the third is strainEnergyBohm)
                rads = np.atleast_2d(np.asarray(h[1], dtype=float))
                vals = [got[2]] if h[0] == 'variants' else list(got)
                for rd, v in zip(rads, vals):
                    trace.append(('C', rd, float(v), ref.desc, ref.quad))
            mk = (ref.version(), h[0], np.asarray(h[1], dtype=float).tobytes()) if h[0] != 'eqAR' else None
            if mk is not None and mk in memo:
                want = memo[mk]
            else:
                stats['fresh'] += 1
                want = hist_call(EF, fresh_object(EF, ref), h)
                if mk is not None:
                    memo[mk] = want
            if not obs_equal(got, want, exact=(h[0] == 'eqAR')):
                if h[0] == 'eqAR' and h[1] == 'search':
                    # is it exactly the aspect-ratio table of the object that is out of date?  the same history with
                    # clearCache() just before this call
                    se2 = EF.StrainEnergy(SHAPES[shape]); ref2 = RefSettings(shape)
                    for h2 in hops[:i]:
                        if ref2.applicable(h2) and not (is_obs(h2) and not ref2.defined()):
                            f2 = hist_call(EF, se2, h2)
                            if not is_obs(h2) and f2 != 'F':
                                ref2.record(h2)
                    se2.clearCache()
                    if obs_equal(hist_call(EF, se2, h), want, exact=True):
                        key = 'history:eqAR_bySearch:stale-aspect-ratio-table'
                fails.append(dict(key=key, index=i, what='%s on the used object differs from a freshly constructed object with the same final settings' % hop_kind(h),
                                  observed=np.asarray(got).tolist(), required=np.asarray(want).tolist()))
            continue
        flag = hist_call(EF, se, h)
        if flag != 'F':
            ref.record(h)
        if trace is not None:
            if h[0] == 'set':
                trace.append(('S', h[1], flag))
            elif h[0] == 'prop':
                trace.append(('S', ({('matrix', 2): 2, ('matrix', 4): 3, ('prec', 2): 6, ('prec', 4): 7}[(h[1], np.ndim(h[2]))], np.asarray(h[2])), flag))
            elif h[0] == 'shape':
                trace.append(('S', (0, H_SHAPE_CODE[h[1].upper()]), flag))
            elif h[0] == 'quad':
                trace.append(('Q', h))
        dreal = DESC_CODE[type(se.description).__name__]
        if dreal != ref.desc:
            fails.append(dict(key='history:description', index=i, what='after %s the description is %s, the calls so far define %s' % (hop_kind(h), SHAPES[dreal], SHAPES[ref.desc]),
                              observed=SHAPES[dreal], required=SHAPES[ref.desc]))
            break
    return fails, stats


def shrink_history(EF, shape, hops, key, budget=160):
    """delta debugging: remove chunks, then single calls, while the same failure key persists"""
    def fails(hs):
        try:
            f, _ = run_history(EF, shape, hs, only=key)
        except Exception:
            return False
        return any(x['key'] == key for x in f)
    trials = 0
    n = 2
    pin = any(h[0] == 'eqAR' and h[1] == 'search' for h in hops)
    while len(hops) >= 2 and trials < budget:
        chunk = max(1, len(hops) // n)
        reduced = False
        for s in range(0, len(hops), chunk):
            # (histories that search the aspect-ratio table keep their table-size calls: a removed one means the 500-entry default)
            cand = hops[:s] + [h for h in hops[s:s + chunk] if h[0] == 'arRes' and pin] + hops[s + chunk:]
            if len(cand) == len(hops):
                continue
            trials += 1
            if cand and fails(cand):
                hops = cand; n = max(n - 1, 2); reduced = True
                break
            if trials >= budget:
                break
        if not reduced:
            if chunk == 1:
                break
            n = min(len(hops), n * 2)
    return hops


def describe_history(shape, hops):
    def arg(h):
        if h[0] == 'set':
            return describe_family([0], [(0, h[1])])['calls'][0]['arg']
        return [np.asarray(x).tolist() if isinstance(x, np.ndarray) else x for x in h[1:]]
    return dict(object='StrainEnergy(%r)' % SHAPES[shape], calls=[dict(call=hop_kind(h), arg=arg(h)) for h in hops],
                replay_shape=shape, replay_ops=[hop_json(h) for h in hops])


def gen_history(r, EF, nmax):
    shape = int(r.choice([3, 3, 3, 3, 1, 2, 0]))
    a0 = 10 ** r.uniform(-9.5, -8)
    ar = float(r.uniform(1.3, 5))
    pool = [np.array([1.0, 1.0, 1.0]), np.array([1.0, 1.0, ar]), np.array([1.0, 1.0, 1 / ar])]
    if r.random() < 0.5:
        pool.append(r.uniform(0.4, 2.5, 3))
    sizes = [a0, 2.5 * a0]
    peq = 0.08 if r.random() < 0.25 else 0.0        # some histories ask for the equilibrium aspect ratio repeatedly

    def radii():
        p = pool[int(r.integers(0, len(pool)))]
        s = sizes[int(r.integers(0, 2))] if r.random() < 0.7 else a0 * r.uniform(0.3, 4)
        return p * s

    def observation():
        u = r.random()
        if u < 0.62:
            return ('compute', radii())
        if u < 0.74:
            return ('compute', np.stack([radii() for _ in range(int(r.integers(2, 4)))]))
        if u < 0.92 - 3 * peq:
            return ('variants', radii())
        if u < 0.97 - peq:
            R = 10 ** r.uniform(-9.3, -7.5, int(r.integers(1, 3)))
            return ('eqAR', 'search', R if r.random() < 0.7 else float(R[0]), float(r.uniform(0.1, 0.6)), str(r.choice(['needle', 'plate'])))
        return ('eqAR', 'GR', float(10 ** r.uniform(-9.3, -7.5)), float(r.uniform(0.1, 0.6)), str(r.choice(['needle', 'plate'])))

    def setter():
        u = r.random()
        if u < 0.70:
            for _ in range(50):
                op = gen_op(r, EF)
                # the description is replaced less often than in part D (an Eshelby description has to live through several calls);
                # an all-zero matrix tensor (= "not set") stays in, but rarely
                if op[0] in (0, 1) and r.random() < 0.6:
                    continue
                if op[0] in (2, 6) and not np.any(op[1]) and r.random() < 0.7:
                    continue
                return ('set', op)
        if u < 0.76:
            c6 = EF.elasticConstantToC(*rand_cubic(r))
            return ('prop', str(r.choice(['matrix', 'prec'])), c6 if r.random() < 0.5 else own_2to4(c6))
        if u < 0.81:
            return ('shape', str(r.choice(H_SHAPE_ARGS)), str(r.choice(['str', 'instance'])))
        if u < 0.89:
            return ('quad', 'lebedev', str(r.choice(['low', 'low', 'mid', 'high'])))
        if u < 0.92:
            return ('quad', 'intervals', int(r.integers(4, 12)), int(r.integers(4, 12)), bool(r.random() < 0.7))
        if u < 0.96:
            return ('inverse', str(r.choice(['quick', 'numpy'])))
        if u < 0.975:
            return ('arRes', float(r.choice([0.1, 0.2, 0.25])), float(r.choice([1, 2])))
        if u < 0.985:
            return ('ifmethod', str(r.choice(['thermo', 'eqradius'])))
        return ('clearCache',)

    n = int(r.integers(3, nmax))
    hops = []
    if r.random() < 0.85:
        hops += [('arRes', 0.25, 1.0), ('set', gen_op_of(r, EF, int(r.choice([2, 3, 4, 5])))), ('set', gen_op_of(r, EF, int(r.choice([12, 13, 14]))))]
        if shape == 3 and r.random() < 0.7:
            hops.append(('quad', 'lebedev', 'low'))
        hops = [hops[i] for i in r.permutation(len(hops))]
    neq = 0; last_search = [None]
    while len(hops) < n:
        h = observation() if r.random() < 0.4 else setter()
        if h[0] == 'eqAR':
            neq += 1
            if neq > (4 if peq else 2):
                continue
            if h[1] == 'search':
                if last_search[0] is not None and r.random() < 0.6:
                    h = last_search[0]                   # the same question again, later in the object's life
                last_search[0] = h
        hops.append(h)
    if not is_obs(hops[-1]):
        hops.append(('compute', radii()))
    if any(h[0] == 'eqAR' and h[1] == 'search' for h in hops) and hops[0][0] != 'arRes':
        # (the default table of eqAR_bySearch has 500 aspect ratios and grows by 500 up to 100: minutes with the default quadrature;
        # histories that use the search start by choosing a coarse table, which is itself one of the calls under test)
        hops.insert(0, ('arRes', float(r.choice([0.1, 0.2, 0.25])), 1.0))
    return shape, hops


def quad_nodes(EF, h):
    """the node table an ellipsoidal description holds after the quadrature call h (None = a new description)"""
    d = EF.EllipsoidalEnergyDescription()
    if h is not None:
        d.setLebedevIntegration(h[2]) if h[1] == 'lebedev' else d.setIntegrationIntervals(h[2], h[3], h[4])
    return (np.asarray(d.midPhiGrid, dtype=float).ravel(), np.asarray(d.midThetaGrid, dtype=float).ravel(), np.asarray(d.midWeights, dtype=float).ravel(), float(d.dA))


def part_history(ctx, res, EF, r, n=None):
    shrunk = set()
    lines, checks = [], []
    ncorr = ctx.n(60, 400)
    budget = [ctx.n(6000, 60000)]           # quadrature nodes the model may evaluate in this run (driver time)

    def hist_line(trace, shape, case):
        """the same history through the model (KawinV.Elastic.hrun): setter flags, final description, every compute result"""
        qkey = lambda q: None if q is None else tuple(q[1:])
        tables = {None: 0}; order = [None]
        cost = 0
        for t in trace:
            q = t[1] if t[0] == 'Q' else t[4] if (t[0] == 'C' and t[3] == 3) else 'skip'
            if q == 'skip':
                continue
            if qkey(q) not in tables:
                tables[qkey(q)] = len(order); order.append(q)
        nodes = [None] * len(order)
        need = {tables[qkey(t[4])] for t in trace if t[0] == 'C' and t[3] == 3}
        for i, q in enumerate(order):
            nodes[i] = quad_nodes(EF, q) if i in need else (np.zeros(0), np.zeros(0), np.zeros(0), 0.0)
        cost = sum(len(nodes[tables[qkey(t[4])]][0]) for t in trace if t[0] == 'C' and t[3] == 3)
        if cost > budget[0] or not any(t[0] == 'C' for t in trace):
            res.count('history-model-skipped-for-cost'); return
        budget[0] -= cost
        toks, want, flags = [], [], ''
        for t in trace:
            if t[0] == 'S':
                toks.append('S ' + enc_op(t[1])); flags += t[2]
            elif t[0] == 'Q':
                toks.append('Q %d' % tables[qkey(t[1])])
            else:
                toks.append('C ' + enc_list(t[1])); want.append((t[2], t[3]))
        res.count('history-model-lines'); res.count('history-model-compute', len(want)); res.count('history-model-quadrature-nodes', cost)

        def chk(t, want=want, flags=flags, case=case):
            mf = t.tok()[1:]
            if mf != flags:
                res.disagree('history: setter raised / returned', case, flags, mf); return
            t.nat()
            g = t.flts()
            if len(g) != len(want):
                res.disagree('history: number of compute results', case, len(want), len(g)); return
            for j, ((w, dsc), m) in enumerate(zip(want, g)):
                if math.isfinite(w) and not close(m, w, 1e-7 if dsc == 3 else 1e-9):
                    res.disagree('history: compute call %d (%s)' % (j, SHAPES[dsc]), case, w, m); return
        lines.append('el.hist %d %d %s %d %s' % (shape, len(order), ' '.join('%s %s %s %s' % (enc_list(nd[0]), enc_list(nd[1]), enc_list(nd[2]), f2b(nd[3])) for nd in nodes),
                                                  len(toks), ' '.join(toks)))
        checks.append(('history', case, chk))

    def _case_history(k):
        shape, hops = gen_history(r, EF, ctx.n(22, 60))
        _case_history.info = dict(object=SHAPES[shape], calls=[hop_kind(h) for h in hops])
        trace = [] if k < ncorr else None
        fails, st = run_history(EF, shape, hops, trace=trace)
        res.case(('history', k, shape, len(hops)), st['obs'] >= 2); res.traces += 1
        if trace and not any(f['key'] == 'history:description' for f in fails):
            hist_line(trace, shape, dict(object=SHAPES[shape], calls=[hop_kind(h) for h in hops], case=k))
        res.count('history-calls', len(hops)); res.count('history-observations', st['obs']); res.count('history-fresh-objects', st['fresh'])
        res.count('history-compute-undefined-without-stiffness', st['undefined']); res.count('history-initial-' + SHAPES[shape])
        for h in hops:
            res.count('hist-op:' + hop_kind(h).split('(')[0])
        if k == 0:
            res.sample(dict(object=SHAPES[shape], calls=[hop_kind(h) for h in hops]))
        seen = set()
        for f in fails:
            if f['key'] in seen:
                continue
            seen.add(f['key'])
            hs = hops[:f['index'] + 1]
            f2 = f
            if f['key'] not in shrunk:
                shrunk.add(f['key'])
                hs = shrink_history(EF, shape, hs, f['key'])
                again = [x for x in run_history(EF, shape, hs, only=f['key'])[0] if x['key'] == f['key']]
                f2 = again[0] if again else f
            res.violate(f['key'], f2['what'], dict(describe_history(shape, hs), shrunk_from=f['index'] + 1, case=k), f2['observed'], f2['required'])
    for k in range(n or ctx.n(260, 2000)):
        attempt(res, 'history', k, _case_history)
    return lines, checks


# ------------------------------------------------------------------ part G: the same tensor in every accepted input form
def part_forms(ctx, res, EF, r, n=None):
    """every tensor-valued setter, given the SAME tensor in each form it accepts, must store the same tensor (and the
    tensor that was supplied: compared with an expansion written out in this file), produce the same parameters and the
    same energies.  Matrix and precipitate side, precipitate stiffness different from the matrix, with and without
    rotations, either side first; eigenstrain and applied stress as scalar / 3-vector / 3x3 matrix."""
    def stiffness_forms(c6, cubic, iso):
        c6 = np.array(c6, dtype=float); c4 = own_2to4(c6)
        f = [('6x6', lambda se, m: (se.setElasticTensor if m else se.setElasticTensorPrecipitate)(c6.copy())),
             ('3x3x3x3', lambda se, m: (se.setElasticTensor if m else se.setElasticTensorPrecipitate)(c4.copy())),
             ('6x6-nested-list', lambda se, m: (se.setElasticTensor if m else se.setElasticTensorPrecipitate)(c6.tolist())),
             ('3x3x3x3-nested-list', lambda se, m: (se.setElasticTensor if m else se.setElasticTensorPrecipitate)(c4.tolist())),
             ('property-6x6', lambda se, m: setattr(se, 'unrotated_cMatrix_4th' if m else 'unrotated_cPrec_4th', c6.copy())),
             ('property-3x3x3x3', lambda se, m: setattr(se, 'unrotated_cMatrix_4th' if m else 'unrotated_cPrec_4th', c4.copy()))]
        if cubic is not None:
            f.append(('elastic-constants', lambda se, m: (se.setElasticConstants if m else se.setElasticConsantsPrecipitate)(*cubic)))
        if iso is not None:
            v = consistent(*iso)
            for i in r.permutation(len(PAIRS))[:3]:
                a, b = PAIRS[i]
                f.append(('moduli-%s-%s' % (a, b), lambda se, m, a=a, b=b: (se.setModuli if m else se.setModuliPrecipitate)(**{a: v[a], b: v[b]})))
        return f, c4

    def _case_forms(k):
        side = ['precipitate', 'matrix'][k % 2]
        kind = ['cubic', 'isotropic', 'general'][(k // 2) % 3]
        if kind == 'cubic':
            cc = rand_cubic(r); c6 = EF.elasticConstantToC(*cc); cubic, iso = tuple(float(x) for x in cc), None
        elif kind == 'isotropic':
            E = 10 ** r.uniform(10, 11.6); nu = r.uniform(0.05, 0.45); v = consistent(E, nu)
            cubic = (v['lam'] + 2 * v['G'], v['lam'], v['G']); c6 = EF.elasticConstantToC(*cubic); iso = (E, nu)
        else:
            c4r = EF.rotateRank4Tensor(rand_rotation(r), own_2to4(EF.elasticConstantToC(*rand_cubic(r))))
            c6 = own_4to2(c4r); c6 = (c6 + c6.T) / 2; cubic = iso = None
        forms, c4 = stiffness_forms(c6, cubic, iso)
        other = EF.elasticConstantToC(*rand_cubic(r))            # the other side: a different cubic stiffness, always as 6x6
        rot = rand_rotation(r) if k % 3 == 0 else None
        rotP = rand_rotation(r) if k % 5 < 2 else None
        eig = rand_eig(r, ['dil', 'diag', 'full'][k % 3])
        stress = r.uniform(-1, 1, (3, 3)) * 2e8; stress = (stress + stress.T) / 2
        shape = ['ellipsoid', 'ellipsoid', 'ellipsoid', 'sphere', 'cube'][k % 5] if side == 'matrix' else 'ellipsoid'
        order = ['low', 'low', 'mid', 'high'][(k // 3) % 4]
        first = ['matrix', 'precipitate'][(k // 7) % 2]
        a = 10 ** r.uniform(-9.5, -7.5)
        rad = a * np.array([1.0, 1.0, r.uniform(0.2, 5)]) if k % 4 else a * r.uniform(0.4, 2.5, 3)
        case = dict(side=side, tensor_kind=kind, tensor_6x6=np.asarray(c6).tolist(), other_side_6x6=other.tolist(), rotation=None if rot is None else rot.tolist(),
                    rotationPrec=None if rotP is None else rotP.tolist(), eigenstrain=eig.tolist(), appliedStress=stress.tolist(), shape=shape, quadrature=order,
                    first=first, r=rad.tolist())
        _case_forms.info = case
        res.case(('forms', k, side, kind, shape, first)); res.count('forms-' + side); res.count('forms-tensor-' + kind)

        def build(setter):
            se = EF.StrainEnergy(shape)
            if shape == 'ellipsoid' and order != 'high':
                se.description.setLebedevIntegration(order)
            if rot is not None:
                se.setRotationMatrix(rot)
            if rotP is not None:
                se.setRotationPrecipitate(rotP)
            se.setAppliedStress(stress)
            for which in ([first] + [w for w in ('matrix', 'precipitate') if w != first]):
                if which == side:
                    setter(se, side == 'matrix')
                elif which == 'matrix':
                    se.setElasticTensor(other)
                else:
                    se.setElasticTensorPrecipitate(other)
            se.setEigenstrain(eig)
            stored = np.array(se.unrotated_cMatrix_4th if side == 'matrix' else se.unrotated_cPrec_4th, dtype=float)
            fs = final_state(se)
            with np.errstate(all='ignore'):
                en = [float(se.compute(rad))]
                if shape == 'ellipsoid':
                    d = se.description
                    en += [float(f(rad)) for f in (d.strainEnergyEllipsoid, d.strainEnergyEllipsoid2ndRank, d.strainEnergyBohm, d.strainEnergyBohm2ndRank,
                                                   d.strainEnergyEllipsoidWithStress)]
            return stored, fs, en
        base = None
        for name, setter in forms:
            res.count('form:' + name)
            stored, fs, en = build(setter)
            tol = 1e-9 if name.startswith('moduli') else 1e-14
            sidekey = 'input-form:%s:%s' % (side, name)
            stored_ok = stored.shape == (3, 3, 3, 3) and arr_close(stored, c4, tol)
            if not stored_ok:
                res.violate(sidekey + ':stored-tensor', 'the %s stiffness supplied as %s is not the tensor the object holds afterwards (unrotated_c%s_4th)' % (side, name, 'Matrix' if side == 'matrix' else 'Prec'),
                            dict(case, form=name), np.asarray(stored).ravel()[:9].tolist(), c4.ravel()[:9].tolist())
            if base is None:
                base = (name, fs, en); continue
            diff = [f for f in FIELDS if not arr_close(fs[f], base[1][f], 1e-7 if (f == 'strain' and tol > 1e-12) else max(tol, 1e-12))]
            if fs['desc'] != base[1]['desc']:
                diff.append('description')
            if diff and stored_ok:          # (with a wrong stored tensor the parameters differ as a consequence)
                res.violate(sidekey + '-vs-6x6:parameters', 'the same %s stiffness supplied as %s and as 6x6 gives different %s' % (side, name, ', '.join(diff)), dict(case, form=name),
                            {f: (np.asarray(fs[f]).ravel()[:6].tolist() if f != 'description' else fs['desc']) for f in diff[:2]},
                            {f: (np.asarray(base[1][f]).ravel()[:6].tolist() if f != 'description' else base[1]['desc']) for f in diff[:2]})
            esc = max(abs(x) for x in base[2] if math.isfinite(x)) if any(math.isfinite(x) for x in base[2]) else 0.0
            if not all(close(x, y, 1e-8 if tol > 1e-12 else 1e-10, esc) for x, y in zip(en, base[2])):
                res.violate(sidekey + '-vs-6x6:energy', 'the same %s stiffness supplied as %s and as 6x6 gives different energies (compute%s)' % (side, name, ', Ellipsoid, Ellipsoid2ndRank, Bohm, Bohm2ndRank, EllipsoidWithStress' if shape == 'ellipsoid' else ''),
                            dict(case, form=name), en, base[2])
    for k in range(n or ctx.n(36, 600)):
        attempt(res, 'input-forms', k, _case_forms)

    def _case_vec_forms(k):
        # eigenstrain / applied stress: scalar = 3-vector = matrix for a dilatation, 3-vector = diagonal matrix
        M, Pm, desc = stiffness_pair(EF, r, 'cubic')
        dil = k % 2 == 0
        scale = 0.03 if k % 4 < 2 else 2e8
        what = 'eigenstrain' if k % 4 < 2 else 'appliedStress'
        v = np.full(3, r.uniform(-1, 1) * scale) if dil else r.uniform(-1, 1, 3) * scale
        fixed = rand_eig(r, 'full')
        forms = ([('scalar', float(v[0]))] if dil else []) + [('vector', v.copy()), ('vector-list', v.tolist()), ('matrix', np.diag(v)), ('matrix-nested-list', np.diag(v).tolist())]
        rot = rand_rotation(r) if k % 3 == 0 else None
        a = 10 ** r.uniform(-9.5, -7.5); rad = a * np.array([1.0, 1.0, r.uniform(0.2, 5)])
        case = dict(desc, setter='setEigenstrain' if what == 'eigenstrain' else 'setAppliedStress', value=v.tolist(), rotation=None if rot is None else rot.tolist(), r=rad.tolist(),
                    other=fixed.tolist())
        _case_vec_forms.info = case
        res.case(('vec-forms', k, what, dil)); res.count('forms-' + what)
        base = None
        for name, val in forms:
            se = EF.StrainEnergy('ellipsoid'); se.description.setLebedevIntegration('low')
            if rot is not None:
                se.setRotationMatrix(rot)
            if k % 8 < 4:
                se.setElasticTensor(M); se.setElasticTensorPrecipitate(Pm)
            if what == 'eigenstrain':
                se.setEigenstrain(val); se.setAppliedStress(fixed * 1e10)
            else:
                se.setAppliedStress(val); se.setEigenstrain(fixed)
            if k % 8 >= 4:
                se.setElasticTensor(M); se.setElasticTensorPrecipitate(Pm)
            fs = final_state(se)
            d = se.description
            en = [float(f(rad)) for f in (se.compute, d.strainEnergyEllipsoid, d.strainEnergyBohm2ndRank, d.strainEnergyEllipsoidWithStress)]
            key = 'input-form:%s:%s' % (what, name)
            if what == 'eigenstrain' and not np.array_equal(fs['eig'], np.diag(v)):
                res.violate(key + ':stored-tensor', 'the eigenstrain supplied as %s is not the tensor the object holds afterwards' % name, dict(case, form=name), fs['eig'].tolist(), np.diag(v).tolist())
            if base is None:
                base = (name, fs, en); continue
            diff = [f for f in FIELDS if not arr_close(fs[f], base[1][f], 1e-12)]
            if diff:
                res.violate(key + '-vs-%s:parameters' % base[0], 'the same %s supplied as %s and as %s gives different %s' % (what, name, base[0], ', '.join(diff)), dict(case, form=name),
                            {f: np.asarray(fs[f]).ravel().tolist() for f in diff[:2]}, {f: np.asarray(base[1][f]).ravel().tolist() for f in diff[:2]})
            if not all(close(x, y, 1e-10, max(abs(z) for z in base[2])) for x, y in zip(en, base[2])):
                res.violate(key + '-vs-%s:energy' % base[0], 'the same %s supplied as %s and as %s gives different energies' % (what, name, base[0]), dict(case, form=name), en, base[2])
    for k in range(ctx.n(24, 400)):
        attempt(res, 'input-forms-vector', k, _case_vec_forms)


# ------------------------------------------------------------------ part H: orientation of the particle axes
# The semi-axes (a, b, c) belong to the coordinate axes (x, y, z) of the stiffness tensor and of the eigenstrain.  Relabelling
# the coordinate axes by a signed permutation matrix Q (the 48 symmetry operations of the cube; 24 proper) is a change of
# description of the SAME particle: semi-axes r'_i = r_p(i), eigenstrain Q e Q^T, stiffness Q Q Q Q C (unchanged for an isotropic
# stiffness and for a cubic one along the axes).  Every energy must be the same.  None of kawin's tests or examples has r[0] != r[1].
AX = 'xyz'
PERMS = [list(p) for p in itertools.permutations(range(3))]


def signed_perms():
    """(Q, p, det): (Q v)_i = s_i v_p(i)"""
    out = []
    for p in PERMS:
        for sg in itertools.product([1.0, -1.0], repeat=3):
            Q = np.zeros((3, 3))
            for i in range(3):
                Q[i, p[i]] = sg[i]
            out.append((Q, p, int(round(np.linalg.det(Q)))))
    return out


def op_name(Q, p, det):
    sg = [int(Q[i, p[i]]) for i in range(3)]
    return "x'y'z' = (%s)%s" % (', '.join(('-' if s < 0 else '') + AX[j] for s, j in zip(sg, p)), '' if det > 0 else ' [improper]')


def rot4_own(Q, T):
    return np.einsum('pi,qj,uk,vl,ijkl->pquv', Q, Q, Q, Q, T)


def scheme_setup(d, scheme, exact_nodes):
    """quadrature schemes of the real description: its three Lebedev tables, its own mid-point grid over one octant
    (assumeSymmetric=True) and over the whole sphere, and an independent Gauss-Legendre x phi rule injected into it"""
    if scheme in ORDERS:
        d.setLebedevIntegration(scheme)
    elif scheme == 'grid-octant':
        d.setIntegrationIntervals(24, 24, True)
    elif scheme == 'grid-full':
        d.setIntegrationIntervals(96, 48, False)
    else:
        d.midPhiGrid, d.midThetaGrid, d.midWeights = exact_nodes
        d.dA = math.pi / 2


def scheme_nodes(d):
    ph, th, w = (np.asarray(x, dtype=float).ravel() for x in (d.midPhiGrid, d.midThetaGrid, d.midWeights))
    return np.stack([np.sin(th) * np.cos(ph), np.sin(th) * np.sin(ph), np.cos(th)], 1), w


def nodes_invariant(n, w, Q):
    """is the weighted node set mapped to itself by Q (directions n and -n identified: every integrand of sphInt is even in n)?
    Then the quadrature SUM is exactly covariant under the relabelling and the energies must agree to rounding."""
    def keys(m):
        m = m.copy()
        for j in (2, 1, 0):
            flip = (np.abs(m[:, j]) > 1e-9)
            sgn = np.where(flip & (m[:, j] < 0), -1.0, 1.0)
            first = np.ones(len(m), dtype=bool)
            for jj in range(j):
                first &= np.abs(m[:, jj]) <= 1e-9
            m = m * np.where(first, sgn, 1.0)[:, None]
        a = np.round(np.column_stack([m, w / max(np.max(np.abs(w)), 1e-300)]), 7) + 0.0
        return a[np.lexsort(a.T[::-1])]
    a, b = keys(n), keys(n @ Q.T)
    return a.shape == b.shape and bool(np.all(np.abs(a - b) < 5e-7))


# tolerance on the energy spread for relabellings that do NOT map the node table to itself (quadrature accuracy of the scheme for
# aspect ratios up to 4; the UNCHANGED code stays below a third of the octant / whole-sphere-grid / product-rule values over seeds 0..59;
# the shipped Lebedev tables mis-integrate z^2 by 1.4 - 3.4 % [finding lebedev-inexact-order*], reach 0.47 / 0.22 / 0.17 on such
# relabellings and are reported under that finding while the tables are recorded as inexact; with the tables repaired
# (/verif/proposed_repairs/C16-lebedev-orbit-generators.diff) every relabelling maps them to themselves and the spread is 1e-13)
ORIENT_TOL = {'low': 0.3, 'mid': 0.2, 'high': 0.15, 'grid-octant': 3e-2, 'grid-full': 5e-2, 'exact': 2e-5}
# absolute tolerance on Eshelby tensor components (measured worst on the unchanged code: low 0.06, mid 0.03, high 0.02, whole-sphere
# grid 3e-3, octant grid 4e-3 on the components it can represent, product rule 6e-9 spheroid / 2.3e-6 tri-axial)
ESHELBY_TOL = {'low': 0.12, 'mid': 0.08, 'high': 0.05, 'grid-octant': 1.5e-2, 'grid-full': 2e-2, 'exact': 1e-6}
SCHEMES = ['low', 'mid', 'high', 'grid-octant', 'grid-full', 'exact']


def shape_radii(r, shape, a=None):
    a = 10 ** r.uniform(-9.5, -7.5) if a is None else a
    if shape == 'triaxial':
        f = np.array([1.0, r.uniform(1.25, 1.8), 0.0]); f[2] = f[1] * r.uniform(1.25, 1.8)
        f = f / f[1]
        return a * f[r.permutation(3)], None           # random choice of the longest / shortest axis
    ax = AX.index(shape[-1])
    ar = float(r.uniform(1.5, 4.0) ** r.choice([-1, 1]))
    v = np.full(3, a); v[ax] = a * ar
    return v, ar


def spheroid_I(a_sym, a_eq):
    """textbook closed forms (Mura, Micromechanics of Defects in Solids, eqs 11.28 / 11.29): (I of the symmetry axis, I of
    the two equal axes) for a prolate (a_sym > a_eq) or oblate spheroid"""
    q = a_sym / a_eq
    if q > 1:
        I_eq = 2 * math.pi * q / (q * q - 1) ** 1.5 * (q * math.sqrt(q * q - 1) - math.acosh(q))
    else:
        I_eq = 2 * math.pi * q / (1 - q * q) ** 1.5 * (math.acos(q) - q * math.sqrt(1 - q * q))
    return 4 * math.pi - 2 * I_eq, I_eq


def triaxial_I(rad):
    """I_i = 2 pi a1 a2 a3 int_0^inf ds / ((a_i^2 + s) Delta(s)) by adaptive quadrature (independent of the code's node tables)"""
    from scipy.integrate import quad
    a2 = np.asarray(rad, dtype=float) ** 2
    a2 = a2 / a2.max()                   # the I_i are homogeneous of degree 0
    out = []
    for i in range(3):
        def f(t, i=i):
            s = t / (1 - t)
            return 1.0 / ((a2[i] + s) * math.sqrt((a2[0] + s) * (a2[1] + s) * (a2[2] + s))) / (1 - t) ** 2
        v, _ = quad(f, 0, 1, epsabs=1e-13, epsrel=1e-13, limit=200)
        out.append(2 * math.pi * math.sqrt(a2.prod()) * v)
    return out


def eshelby_iso(rad, nu, I):
    """Eshelby tensor of the ellipsoid with semi-axes rad in an isotropic matrix from the I_i (Mura eqs 11.16 - 11.19);
    all components not of the form iijj / ijij / ijji are zero"""
    a2 = np.asarray(rad, dtype=float) ** 2
    Iij = np.zeros((3, 3)); equal = np.zeros((3, 3), dtype=bool)
    for i in range(3):
        for j in range(3):
            if i != j:
                equal[i, j] = abs(a2[i] - a2[j]) <= 1e-9 * max(a2[i], a2[j])
                if not equal[i, j]:
                    Iij[i, j] = (I[j] - I[i]) / (a2[i] - a2[j])
    for i in range(3):
        eq = [j for j in range(3) if j != i and equal[i, j]]           # a_j = a_i: I_ij = I_ii
        Iii = (4 * math.pi / a2[i] - sum(Iij[i, j] for j in range(3) if j != i and not equal[i, j])) / (3 + len(eq))
        Iij[i, i] = Iii
        for j in eq:
            Iij[i, j] = Iii
    S = np.zeros((3, 3, 3, 3))
    q = 1.0 / (8 * math.pi * (1 - nu)); t = (1 - 2 * nu) * q
    for i in range(3):
        S[i, i, i, i] = 3 * q * a2[i] * Iij[i, i] + t * I[i]
        for j in range(3):
            if j != i:
                S[i, i, j, j] = q * a2[j] * Iij[i, j] - t * I[i]
                S[i, j, i, j] = S[i, j, j, i] = (a2[i] + a2[j]) * q / 2 * Iij[i, j] + t / 2 * (I[i] + I[j])
    return S


def part_orientation(ctx, res, EF, r, lebedev_bad):
    lines, checks = [], []
    exact_nodes = product_rule(*ctx.n((40, 80), (64, 128)))
    G = signed_perms()
    ops_full = [g for g in G if g[2] > 0 and not np.array_equal(g[0], np.eye(3))] + [g for g in G if g[2] < 0 and np.all(g[0] >= 0)]
    ops_perm = [g for g in G if np.all(g[0] >= 0) and not np.array_equal(g[0], np.eye(3))]
    inv_memo = {}
    de = EF.EllipsoidalEnergyDescription()

    # ---- (d) radius function and direction function use the same axis convention
    def _case_beta_axes(k):
        rad, _ = shape_radii(r, 'triaxial')
        if k % 5 == 4:
            rad, _ = shape_radii(r, 'spheroid-' + AX[k % 3])
        m = 1 if k % 3 else int(r.integers(2, 30))
        if k % 7 == 6:
            ph = np.asarray(de.midPhiGrid, dtype=float).ravel()[:: 97]; th = np.asarray(de.midThetaGrid, dtype=float).ravel()[:: 97]
        else:
            ph = r.uniform(0, 2 * math.pi, m); th = r.uniform(0.05, math.pi - 0.05, m)
        case = dict(r=rad.tolist(), phi=ph.tolist()[:6], theta=th.tolist()[:6], points=len(ph))
        _case_beta_axes.info = case
        res.case(('beta-axes', k), True); res.count('beta-axes-points', len(ph))
        b_arr = np.asarray(de._beta(rad[0], rad[1], rad[2], ph, th), dtype=float)
        n_arr = np.asarray(de._n(ph, th), dtype=float)
        want = np.sqrt((rad[0] * n_arr[0]) ** 2 + (rad[1] * n_arr[1]) ** 2 + (rad[2] * n_arr[2]) ** 2)
        bad = [i for i in range(len(ph)) if not close(b_arr[i], want[i], 1e-12)]
        if bad:
            i = bad[0]
            mir = math.sqrt((rad[1] * n_arr[0, i]) ** 2 + (rad[0] * n_arr[1, i]) ** 2 + (rad[2] * n_arr[2, i]) ** 2)
            res.violate('beta-axis-convention', '_beta(a, b, c, phi, theta) != sqrt((a n_x)^2 + (b n_y)^2 + (c n_z)^2) with n = _n(phi, theta): the radius function and the direction function '
                        'do not attach the semi-axes to the same coordinate axes' + (' (the value is that of the ellipsoid with a and b exchanged)' if close(b_arr[i], mir, 1e-12) else ''),
                        dict(r=rad.tolist(), phi=float(ph[i]), theta=float(th[i]), n=n_arr[:, i].tolist()), float(b_arr[i]), float(want[i]))
        # joint relabelling on the implementation: the angles of the relabelled direction, the relabelled semi-axes
        j = int(r.integers(0, len(ph))); pk = int(r.integers(1, 6)); p = PERMS[pk]
        n1 = n_arr[:, j][p]; r1 = rad[p]
        if abs(n1[2]) < 0.98:
            th1 = math.acos(max(-1.0, min(1.0, n1[2]))); ph1 = math.atan2(n1[1], n1[0])
            b1 = float(de._beta(r1[0], r1[1], r1[2], ph1, th1))
            if not close(b1, float(b_arr[j]), 1e-9):
                res.violate('beta-axis-convention', '_beta changes when the coordinate axes are relabelled (semi-axes and direction together, %s)' % op_name(*[g for g in G if g[1] == p and np.all(g[0] >= 0)][0]),
                            dict(r=rad.tolist(), phi=float(ph[j]), theta=float(th[j]), relabelled_r=r1.tolist(), relabelled_phi=ph1, relabelled_theta=th1), b1, float(b_arr[j]))
        # correspondence: the model's quadratic form / radicand / joint relabelling at the traced normal
        a, b, c = (float(x) for x in rad); pj, tj, bj = float(ph[j]), float(th[j]), float(b_arr[j])

        def chk(t, bj=bj, case=dict(r=[a, b, c], phi=pj, theta=tj, relabelling=p)):
            g = t.flts()
            names = ['quadForm r n(_n traced)', 'betaSqSC (radicand from sines / cosines)', 'betaN of the jointly relabelled (r, n)', None, 'quadForm r (nSC ...)']
            for i, nm in enumerate(names):
                if nm is None:
                    continue
                mine = g[i] if i != 2 else g[i] ** 2
                if not close(mine, bj * bj, 1e-11):
                    mirrored = close(g[3], bj * bj, 1e-11)
                    res.disagree('axis convention: model %s vs _beta^2%s' % (nm, ' (the implementation equals the x<->y mirrored radicand betaSqMirrored)' if mirrored else ''), case, bj * bj, mine)
                    return
        lines.append('el.beta.axes %s %d' % (' '.join(f2b(x) for x in (a, b, c, pj, tj)), pk))
        checks.append(('beta-axes', case, chk))
    for k in range(ctx.n(60, 600)):
        attempt(res, 'beta-axes', k, _case_beta_axes)

    # ---- (a), (b): energies under joint relabelling of the axes
    mkinds = ['iso', 'cubic', 'anisotropic']
    shapes = ['triaxial', 'spheroid-x', 'spheroid-y', 'spheroid-z']

    def _case_orientation(k):
        mk = mkinds[k % 3]; shape = shapes[(k // 3) % 4]; ek = ['diag', 'full'][(k // 12) % 2]
        rad, ar = shape_radii(r, shape)
        eig = rand_eig(r, ek)
        hom = r.random() < 0.5
        if mk == 'iso':
            cm = rand_iso(r)[:3]; cp = None if hom else rand_iso(r)[:3]
        else:
            cm = rand_cubic(r); cp = None if hom else rand_cubic(r)
        M4 = own_2to4(EF.elasticConstantToC(*cm)); P4 = None if cp is None else own_2to4(EF.elasticConstantToC(*cp))
        R = None
        if mk == 'anisotropic':          # a cubic crystal that is NOT aligned with the particle axes; the relabelling acts on it too
            R = rand_rotation(r)
            M4 = rot4_own(R, M4); P4 = None if P4 is None else rot4_own(R, P4)
        V = 4 * math.pi / 3 * float(np.prod(rad))
        floor = 1e-3 * cm[2] * float(np.sum(eig * eig)) * V
        case = dict(matrix=mk, cM=list(map(float, cm)), cP=None if cp is None else list(map(float, cp)), crystal_rotation=None if R is None else R.tolist(),
                    r=rad.tolist(), shape=shape, eigenstrain=eig.tolist(), eig_kind=ek)
        _case_orientation.info = case
        res.case(('orientation', mk, shape, ek, k), True); res.count('orientation:' + mk); res.count('orientation:' + shape)
        if k < 2:
            res.sample(case)
        signs_matter = not (ek == 'diag' and mk != 'anisotropic')
        ops = ops_full if signs_matter else ops_perm
        for scheme in SCHEMES:
            if scheme == 'grid-octant' and (ek != 'diag' or mk == 'anisotropic'):
                continue                # the octant grid is for integrands that are even in every coordinate (documented option)

            def energies(Q, p):
                se = EF.StrainEnergy('ellipsoid')
                scheme_setup(se.description, scheme, exact_nodes)
                se.setElasticTensor(M4 if mk != 'anisotropic' else rot4_own(Q, M4))
                if P4 is not None:
                    se.setElasticTensorPrecipitate(P4 if mk != 'anisotropic' else rot4_own(Q, P4))
                se.setEigenstrain(Q @ eig @ Q.T)
                d = se.description; rr = rad[p]
                return se, np.array([float(se.compute(rr)), float(d.strainEnergyEllipsoid(rr))])
            se0, E0 = energies(np.eye(3), [0, 1, 2])
            if scheme not in inv_memo:
                nd = scheme_nodes(se0.description)
                inv_memo[scheme] = {op_name(*g): nodes_invariant(nd[0], nd[1], g[0]) for g in G}
            inv = inv_memo[scheme]
            if signs_matter:
                is_exact = lambda g: inv[op_name(*g)]
            else:       # diagonal eigenstrain, stiffness along the axes: Q and Q diag(+-1) describe the same input
                is_exact = lambda g: any(inv[op_name(*h)] for h in G if h[1] == g[1])
            # the code's Lebedev tables and octant grid: the relabellings that map the table to itself (sharp) and the six permutations;
            # whole-sphere grid and product rule: all 24 proper operations and the three transpositions
            use = ops if scheme in ('grid-full', 'exact') else [g for g in ops if is_exact(g) or np.all(g[0] >= 0)]
            scale = max(float(np.max(np.abs(E0))), floor)
            worst = None
            for g in use:
                _, E1 = energies(g[0], g[1])
                res.evaluations += 1
                exact = is_exact(g)
                tol = 1e-9 if exact else ORIENT_TOL[scheme]
                res.count('orientation-%s-%s' % (scheme, 'node-table-invariant' if exact else 'quadrature-accuracy'))
                dev = float(np.max(np.abs(E1 - E0))) / scale
                if not (dev <= tol) and (worst is None or dev / tol > worst[0]):
                    worst = (dev / tol, g, E1, exact, tol, dev)
            if worst is not None:
                _, g, E1, exact, tol, dev = worst
                # (a table already recorded as inexact: deviations of relabellings that do not map it to itself belong to that finding)
                known = scheme in ORDERS and ORDERS[scheme] in lebedev_bad and not exact
                res.violate(('lebedev-inexact-order%d' % ORDERS[scheme]) if known else 'orientation-joint-permutation-%s-%s' % (mk, shape),
                            'the same particle described in relabelled coordinate axes (%s: semi-axes, eigenstrain%s transformed together) has a different strain energy; '
                            'quadrature %s%s, relative deviation %.3e > %.1e (compute, strainEnergyEllipsoid)'
                            % (op_name(*g), ' and stiffness' if mk == 'anisotropic' else '', scheme,
                               ' (the node table is mapped to itself by this relabelling: the sums must agree to rounding)' if exact else '', dev, tol),
                            dict(case, quadrature=scheme, Q=g[0].tolist(), relabelled_r=rad[g[1]].tolist(), relabelled_eigenstrain=(g[0] @ eig @ g[0].T).tolist()),
                            E1.tolist(), E0.tolist())
    for k in range(ctx.n(24, 240)):
        attempt(res, 'orientation', k, _case_orientation)

    # ---- (c) textbook Eshelby tensor of a spheroid about each coordinate axis (and of a tri-axial ellipsoid) in an isotropic matrix
    comps = [(i, i, j, j) for i in range(3) for j in range(3)] + [(i, j, i, j) for i in range(3) for j in range(3) if i < j]
    allc = list(itertools.product(range(3), repeat=4))

    def _case_eshelby_spheroid(k):
        cm = rand_iso(r); M = EF.elasticConstantToC(*cm[:3]); nu = cm[4]
        shape = shapes[1 + k % 3] if k % 4 != 3 else 'triaxial'
        rad, ar = shape_radii(r, shape)
        if shape == 'triaxial':
            I = triaxial_I(rad)
        else:
            ax = AX.index(shape[-1]); a_eq = float(rad[(ax + 1) % 3])
            Is, Ie = spheroid_I(float(rad[ax]), a_eq)
            I = [Ie] * 3; I[ax] = Is
        want = eshelby_iso(rad, nu, I)
        case = dict(cM=list(map(float, cm[:3])), nu=float(nu), r=rad.tolist(), shape=shape, aspect_ratio=ar)
        _case_eshelby_spheroid.info = case
        res.case(('eshelby-spheroid', shape, k), True); res.count('eshelby-textbook:' + shape + ('' if ar is None else ':prolate' if ar > 1 else ':oblate'))
        for scheme in SCHEMES:
            se = EF.StrainEnergy('ellipsoid'); scheme_setup(se.description, scheme, exact_nodes)
            se.setElasticTensor(M); se.setEigenstrain(0.01)
            d = se.description
            S = np.asarray(d.Sijmn(d.Dijkl(rad, se.params.cMatrix_4th)), dtype=float)
            tol = ESHELBY_TOL[scheme] * (50 if (scheme == 'exact' and shape == 'triaxial') else 1)
            dev = np.abs(S - want)
            cand = comps if scheme == 'grid-octant' else allc      # (one octant cannot represent the components that are odd in a coordinate)
            bad = [c for c in cand if not dev[c] <= tol]
            res.evaluations += 1; res.count('eshelby-textbook-' + scheme)
            if bad:
                c = max(bad, key=lambda c: dev[c])
                comp = ''.join(str(i + 1) for i in c)
                key = ('eshelby-spheroid-about-%s-component-%s' % (shape[-1], comp)) if shape != 'triaxial' else 'eshelby-triaxial-component-' + comp
                if scheme in ORDERS and ORDERS[scheme] in lebedev_bad and float(dev[c]) <= 2 * tol:
                    key = 'lebedev-inexact-order%d' % ORDERS[scheme]       # within twice the margin on a table recorded as inexact
                res.violate(key, 'Eshelby tensor of %s in an isotropic matrix (quadrature %s): S%s = %.6f, textbook %.6f (tolerance %.1e; %d components differ)'
                            % ('a tri-axial ellipsoid' if shape == 'triaxial' else 'a %s spheroid with symmetry axis %s' % ('prolate' if ar > 1 else 'oblate', shape[-1]),
                               scheme, comp, S[c], want[c], tol, len(bad)),
                            dict(case, quadrature=scheme), {''.join(str(i + 1) for i in b): float(S[b]) for b in bad[:6]}, {''.join(str(i + 1) for i in b): float(want[b]) for b in bad[:6]})
    for k in range(ctx.n(16, 160)):
        attempt(res, 'eshelby-spheroid', k, _case_eshelby_spheroid)
    return lines, checks


# ------------------------------------------------------------------ part I: array calls (one call for many particles)
ROW_FACTORS = [0.5, 2.0, 3.0, 10.0]
ROW_TOL = 1e-12            # an array call and a single call run the same floating-point operations on a row
ROW_VARIANTS = ['strainEnergyEllipsoid', 'strainEnergyEllipsoid2ndRank', 'strainEnergyBohm', 'strainEnergyBohm2ndRank', 'strainEnergyEllipsoidWithStress']


def gen_rows(r):
    """the (n x 3) semi-axes of one array call, n = 2..8: one to three SHAPES (sphere, spheroid about any axis, tri-axial), each
    at several SIZES (uniform scalings of one triple by 1, 0.5, 2, 3, 10), as a run of one shape (a size distribution), interleaved
    with the other shapes, with repeated rows.  Returns rows, shape number per row, size factor per row, layout name."""
    n = int(r.integers(2, 9))
    a0 = 10 ** r.uniform(-9.5, -8)
    base = []
    for _ in range(int(r.integers(1, 4))):
        u = r.random()
        if u < 0.15:
            b = np.ones(3)
        elif u < 0.7:
            ar = float(r.uniform(1.2, 5)); ar = ar if r.random() < 0.6 else 1 / ar
            b = np.ones(3); b[int(r.choice([2, 2, 2, 0, 1]))] = ar
        else:
            b = r.uniform(0.4, 2.5, 3)
        if not any(np.array_equal(b * a0, x) for x in base):          # (two spheres are ONE shape)
            base.append(b * a0)
    fac = [1.0] + ROW_FACTORS
    layout = str(r.choice(['run', 'run', 'interleaved', 'repeated', 'mixed']))
    ids, fs = [], []
    if layout == 'run':                         # the same shape at n sizes, other shapes before / after
        k = int(r.integers(2, n + 1)); start = int(r.integers(0, n - k + 1))
        order = [float(x) for x in r.permutation(fac)] + [float(x) * 7.0 for x in r.permutation(fac)]
        for i in range(n):
            if start <= i < start + k:
                ids.append(0); fs.append(order[i - start])
            else:
                ids.append(int(r.integers(0, len(base)))); fs.append(float(r.choice(fac)))
    elif layout == 'interleaved':               # A, B, A at another size, B at another size, ...
        if len(base) == 1:
            base.append(base[0] * np.array([1.0, 1.0, 1.7]))
        for i in range(n):
            ids.append(i % len(base)); fs.append(float(r.choice(fac)))
    elif layout == 'repeated':                  # exact repetitions, consecutive and not
        for i in range(n):
            if i and r.random() < 0.6:
                j = int(r.integers(0, i)) if r.random() < 0.5 else i - 1
                ids.append(ids[j]); fs.append(fs[j])
            else:
                ids.append(int(r.integers(0, len(base)))); fs.append(float(r.choice(fac)))
    else:
        for i in range(n):
            ids.append(int(r.integers(0, len(base)))); fs.append(float(r.choice(fac)))
    if not any(ids[i] == ids[j] and fs[i] != fs[j] for i in range(n) for j in range(i)):
        # every array has at least one shape at two sizes, in neighbouring rows
        ids[-1] = ids[-2]; fs[-1] = fs[-2] * float(r.choice(ROW_FACTORS))
    rows = np.array([base[i] * f for i, f in zip(ids, fs)])
    return rows, ids, fs, layout


def row_classes(ids, fs):
    out = []
    for i in range(len(ids)):
        if any(ids[j] == ids[i] and fs[j] == fs[i] for j in range(i)):
            out.append('repeated-row')
        elif any(ids[j] == ids[i] for j in range(i)):
            out.append('same-shape-different-size')
        else:
            out.append('first-row-of-its-shape')
    return out


def rows_object(EF, cfg):
    """the object of an array case: constructor, setters, quadrature of the ellipsoidal description"""
    se = EF.StrainEnergy(cfg['shape'])
    for op in cfg['ops']:
        apply_flag(se, op)
    q = cfg.get('quad')
    if q is not None and isinstance(se.description, EF.EllipsoidalEnergyDescription):
        se.description.setLebedevIntegration(q[2]) if q[1] == 'lebedev' else se.description.setIntegrationIntervals(q[2], q[3], q[4])
    if cfg.get('arRes') is not None:
        se.setAspectRatioResolution(*cfg['arRes'])
    return se


def rows_cfg_json(cfg):
    return dict(shape=cfg['shape'], ops=[hop_json(('set', op)) for op in cfg['ops']], quad=None if cfg.get('quad') is None else list(cfg['quad']),
                arRes=cfg.get('arRes'))


def rows_cfg_from_json(j):
    return dict(shape=j['shape'], ops=[hop_from_json(x)[1] for x in j['ops']], quad=None if j.get('quad') is None else tuple(j['quad']),
                arRes=j.get('arRes'))


def rows_failures(EF, se, rows, ids, fs, perms, stats=None):
    """the array-call predicates on the implementation's own outputs; returns (failures, array result, permuted results)"""
    rows = np.asarray(rows, dtype=float); n = len(rows)
    desc = SHAPES[DESC_CODE[type(se.description).__name__]]
    fails = []
    with np.errstate(all='ignore'):
        E = np.asarray(se.compute(rows.copy()), dtype=float)
        if E.shape != (n,):
            fails.append(dict(key='array-call-shape:' + desc, what='compute on an (%d x 3) array returns an array of shape %r' % (n, E.shape), observed=list(E.shape), required=[n]))
            return fails, E, []
        single = np.array([float(se.compute(rows[i].copy())) for i in range(n)])
        direct = np.array([float(se.description.computeStrainEnergy(rows[i].copy())) for i in range(n)])
        aslist = np.array([float(se.compute([float(x) for x in rows[i]])) for i in range(n)])
    cls = row_classes(ids, fs)
    seen = set()
    for i in range(n):
        for nm, ref in (('compute(row)', single), ('description.computeStrainEnergy(row)', direct), ('compute(list(row))', aslist)):
            if stats is not None:
                stats['row-' + cls[i]] = stats.get('row-' + cls[i], 0) + 1
            if close(E[i], ref[i], ROW_TOL):
                continue
            key = 'array-row-differs-from-single-call:%s:%s' % (desc, cls[i])
            if key in seen:
                continue
            seen.add(key)
            prev = ' (it is the value returned for row %d)' % (i - 1) if i and E[i] == E[i - 1] and not close(ref[i], ref[i - 1], ROW_TOL) else ''
            same = [j for j in range(i) if ids[j] == ids[i]]
            rel = ''
            if same:
                j = same[-1]
                rel = '; row %d is row %d scaled by %g: E[%d]/E[%d] = %.6g in the array call, %.6g expected' % (i, j, fs[i] / fs[j], i, j, E[i] / E[j] if E[j] else float('nan'), (fs[i] / fs[j]) ** 3)
            fails.append(dict(key=key, what='row %d of compute(%d x 3 array) differs from %s on that row%s%s' % (i, n, nm, prev, rel), observed=float(E[i]), required=float(ref[i]), row=i))
    # the same shape at two sizes inside ONE call: energies in the ratio of the volumes
    done = False
    for i in range(n):
        for j in range(i):
            if ids[j] == ids[i] and not done:
                s3 = (fs[i] / fs[j]) ** 3
                if stats is not None:
                    stats['cube-pairs'] = stats.get('cube-pairs', 0) + 1
                if not close(E[i], s3 * E[j], 1e-9):
                    done = True
                    fails.append(dict(key='cube-scaling-within-array:' + desc, what='rows %d and %d of one compute call are the same shape, row %d = %g x row %d: E[%d]/E[%d] = %.9g, the cube of the size factor is %.9g'
                                      % (j, i, i, fs[i] / fs[j], j, i, j, E[i] / E[j] if E[j] else float('nan'), s3), observed=float(E[i]), required=float(s3 * E[j]), row=i))
    # the order of the rows does not matter
    EP = []
    for perm in perms:
        with np.errstate(all='ignore'):
            Ep = np.asarray(se.compute(rows[perm].copy()), dtype=float)
        EP.append(Ep)
        bad = [k for k in range(n) if Ep.shape != (n,) or not close(Ep[k], E[perm[k]], ROW_TOL)]
        if bad and not any(f['key'].endswith(':permuted') for f in fails):
            k = bad[0]
            fails.append(dict(key='array-row-differs-from-single-call:%s:permuted' % desc, what='compute(rows[perm]) != compute(rows)[perm]: the result for a particle depends on the rows around it; '
                              'position %d of the permuted call holds row %d (%s)' % (k, perm[k], cls[perm[k]]), observed=np.asarray(Ep).tolist(), required=E[perm].tolist(), perm=[int(x) for x in perm]))
    # the energy variants of the ellipsoidal description take one particle per call: the same shape at two sizes across calls
    if desc == 'ellipsoid':
        d = se.description
        with np.errstate(all='ignore'):
            V = {nm: [float(getattr(d, nm)(rows[i].copy())) for i in range(n)] for nm in ROW_VARIANTS}
        for nm in ROW_VARIANTS:
            hit = [(i, j) for i in range(n) for j in range(i) if ids[i] == ids[j] and not close(V[nm][i], (fs[i] / fs[j]) ** 3 * V[nm][j], 1e-9)]
            if hit:
                i, j = hit[0]
                fails.append(dict(key='cube-scaling-across-rows:' + nm, what='description.%s on row %d = %g x row %d: ratio of the energies %.9g, cube of the size factor %.9g'
                                  % (nm, i, fs[i] / fs[j], j, V[nm][i] / V[nm][j] if V[nm][j] else float('nan'), (fs[i] / fs[j]) ** 3), observed=V[nm][i], required=(fs[i] / fs[j]) ** 3 * V[nm][j], row=i))
        if not close(V['strainEnergyBohm'][0], single[0], 1e-9) and not any(f['key'].startswith('array-row') for f in fails):
            fails.append(dict(key='compute-is-not-strainEnergyBohm', what='compute(row 0) != description.strainEnergyBohm(row 0)', observed=float(single[0]), required=V['strainEnergyBohm'][0], row=0))
    return fails, E, EP


def eqar_failures(EF, se, which, R, gamma, sfkind, perm):
    """eqAR_byGR / eqAR_bySearch on an array of radii: entry i = the call on R[i]; permuted radii -> permuted answers"""
    sf = _shape_factor(sfkind)
    f = se.eqAR_bySearch if which == 'search' else se.eqAR_byGR
    name = 'eqAR_by' + ('Search' if which == 'search' else 'GR')
    R = np.asarray(R, dtype=float); n = len(R)
    fails = []
    with np.errstate(all='ignore'):
        if which == 'search':
            # the aspect-ratio table grows while a search ends in its upper quarter: ask until it no longer grows, then every call below reads ONE table
            size = -1
            for _ in range(4):
                f(R.copy(), gamma, sf)
                if len(se._aspectRatios) == size:
                    break
                size = len(se._aspectRatios)
            else:
                return None
        A = np.asarray(f(R.copy(), gamma, sf), dtype=float)
        if A.shape != (n,):
            return [dict(key='array-call-shape:' + name, what='%s on %d radii returns shape %r' % (name, n, A.shape), observed=list(A.shape), required=[n])]
        single = np.array([float(f(R[i], gamma, sf)) for i in range(n)])
        Ap = np.asarray(f(R[perm].copy(), gamma, sf), dtype=float)
        if which == 'search' and len(se._aspectRatios) != size:
            return None
    for i in range(n):
        if not close(A[i], single[i], ROW_TOL):
            c = 'repeated-row' if any(R[j] == R[i] for j in range(i)) else 'same-shape-different-size'
            fails.append(dict(key='array-row-differs-from-single-call:%s:%s' % (name, c), what='entry %d of %s(array of %d radii) differs from the call on that radius alone' % (i, name, n),
                              observed=float(A[i]), required=float(single[i]), row=i))
            break
    bad = [k for k in range(n) if not close(Ap[k], A[perm[k]], ROW_TOL)]
    if bad:
        fails.append(dict(key='array-row-differs-from-single-call:%s:permuted' % name, what='%s(R[perm]) != %s(R)[perm]' % (name, name), observed=Ap.tolist(), required=A[perm].tolist(), perm=[int(x) for x in perm]))
    return fails


def part_rows(ctx, res, EF, r, n=None):
    """array calls: `compute` on an (n x 3) array, eqAR_byGR / eqAR_bySearch on an array of radii.  Oracle on the implementation:
    row i = the single call on row i; same shape at two sizes inside one call -> cube of the size factor; permuted rows -> permuted results.
    Model: KawinV.Elastic.computeRows (driver verb el.rows) on the same settings and rows."""
    lines, checks = [], []
    ncorr = ctx.n(40, 300)
    budget = [ctx.n(2600, 60000)]            # quadrature nodes x rows the model may evaluate (driver time ~1 ms each)
    names = ['ellipsoid', 'sphere', 'ellipsoid', 'cube', 'plate', 'constant', 'needle', 'ellipsoid']

    def _case_rows(k):
        name = names[k % len(names)]
        ops = []
        if name == 'constant':
            if r.random() < 0.7:
                ops.append((1, float(r.uniform(1e6, 1e8))))          # (a constant description without a value: energy 0 for every row)
        else:
            rank = 2 + (k // len(names)) % 2          # matrix stiffness as 6x6 / as 3x3x3x3, alternating
            mk = str(r.choice(['cubic', 'iso']))
            c6 = EF.elasticConstantToC(*(rand_cubic(r) if mk == 'cubic' else rand_iso(r)[:3]))
            ops.append((rank, c6 if rank == 2 else own_2to4(c6)))
            if r.random() < 0.5:
                p6 = EF.elasticConstantToC(*(rand_cubic(r) if mk == 'cubic' else rand_iso(r)[:3]))
                prank = 6 + int(r.integers(0, 2))
                ops.append((prank, p6 if prank == 6 else own_2to4(p6)))
            ek = int(r.choice([12, 13, 14]))
            ops.append((ek, float(r.choice([-1, 1]) * r.uniform(0.003, 0.03)) if ek == 12 else r.uniform(0.003, 0.03, 3) * r.choice([-1, 1], 3) if ek == 13 else rand_eig(r, 'full')))
            if r.random() < 0.3:
                ops = [ops[i] for i in r.permutation(len(ops))]
        quad = None
        if name in ('ellipsoid', 'plate', 'needle'):
            u = r.random()
            quad = ('quad', 'intervals', int(r.integers(4, 9)), int(r.integers(4, 9)), bool(r.random() < 0.7)) if u < 0.55 else ('quad', 'lebedev', 'low') if u < 0.9 else None
        cfg = dict(shape=name, ops=ops, quad=quad, arRes=None)
        rows, ids, fs, layout = gen_rows(r)
        nrow = len(rows)
        perms = [r.permutation(nrow), np.arange(nrow)[::-1]]
        if np.array_equal(perms[0], np.arange(nrow)):
            perms[0] = np.roll(np.arange(nrow), 1)
        case = dict(object='StrainEnergy(%r)' % name, calls=[OPN[o[0]] for o in ops], quadrature=None if quad is None else hop_kind(quad), layout=layout,
                    rows=rows.tolist(), shape_of_row=ids, size_factor_of_row=fs,
                    rows_replay=dict(cfg=rows_cfg_json(cfg), rows=rows.tolist(), ids=ids, fs=fs, perms=[[int(x) for x in p] for p in perms]))
        _case_rows.info = dict(object=case['object'], calls=case['calls'], rows=case['rows'])
        se = rows_object(EF, cfg)
        dreal = DESC_CODE[type(se.description).__name__]
        stats = {}
        fails, E, EP = rows_failures(EF, se, rows, ids, fs, perms, stats)
        res.case(('rows', k, name, layout, nrow), True); res.evaluations += 1
        res.count('rows-description:' + SHAPES[dreal]); res.count('rows-layout:' + layout); res.count('rows-n=%d' % nrow)
        for kk, v in stats.items():
            res.count('rows-' + kk, v)
        if dreal != 0:
            res.count('rows-matrix-tensor-rank-%d' % (2 if ops and any(o[0] == 2 for o in ops) else 4))
        if k < 2:
            res.sample({kk: case[kk] for kk in ('object', 'calls', 'quadrature', 'layout', 'rows', 'shape_of_row', 'size_factor_of_row')})
        for f in fails:
            res.violate(f['key'], f['what'], dict(case, row=f.get('row'), perm=f.get('perm')), f['observed'], f['required'])
        # ---- arrays of radii through the equilibrium aspect ratio functions (ellipsoidal descriptions, every eighth case)
        if dreal == 3 and k % 8 == 0:
            nR = int(r.integers(2, 6)); R0 = 10 ** r.uniform(-9.3, -7.8)
            fr = [1.0] + [float(r.choice([1.0] + ROW_FACTORS)) for _ in range(nR - 1)]
            if len(set(fr)) == len(fr):
                fr[-1] = fr[0]                                   # (one repeated radius)
            R = R0 * np.array(fr); gamma = float(r.uniform(0.1, 0.6)); sfk = str(r.choice(['needle', 'plate']))
            perm = np.roll(np.arange(nR), int(r.integers(1, nR)))
            for which in (('GR', 'search') if k % 16 == 0 or ctx.thorough else ('search',)):      # (a golden-section search costs ~25 energies per radius)
                cfg2 = dict(cfg, arRes=[float(r.choice([0.1, 0.2, 0.25])), float(r.choice([1, 2]))])
                se2 = rows_object(EF, cfg2)
                ff = eqar_failures(EF, se2, which, R, gamma, sfk, perm)
                res.evaluations += 1
                if ff is None:
                    res.near_tie_skipped += 1; res.count('rows-eqAR-table-still-growing'); continue
                res.count('rows-eqAR_by' + ('Search' if which == 'search' else 'GR'))
                for f in ff:
                    res.violate(f['key'], f['what'], dict(object=case['object'], calls=case['calls'], quadrature=case['quadrature'], Rsph=R.tolist(), gamma=gamma, shape_factor=sfk,
                                                          eqar_replay=dict(cfg=rows_cfg_json(cfg2), which=which, R=R.tolist(), gamma=gamma, sf=sfk, perm=[int(x) for x in perm])),
                                f['observed'], f['required'])
        # ---- the same settings and rows through the model
        if k < ncorr and E.shape == (nrow,):
            nodes = [(np.zeros(0), np.zeros(0), np.zeros(0), 0.0)]
            toks = ['S ' + enc_op(op) for op in ops]
            if dreal == 3:
                nd = quad_nodes(EF, quad)
                cost = len(nd[0]) * nrow
                if cost > budget[0]:
                    res.count('rows-model-skipped-for-cost'); return
                budget[0] -= cost
                if quad is not None:
                    nodes.append(nd); toks.append('Q 1')
                else:
                    nodes[0] = nd
            idx = [int(x) for x in perms[0]]
            tol = 1e-7 if dreal == 3 else 1e-9
            Ep = EP[0] if EP else None

            def chk(t, E=E, Ep=Ep, idx=idx, tol=tol, dreal=dreal, case={kk: case[kk] for kk in ('object', 'calls', 'quadrature', 'rows')}):
                md = t.nat()
                g1 = t.flts(); g2 = t.flts(); g3 = t.flts(); g4 = t.flts()
                if md != dreal:
                    res.disagree('array call: description', case, SHAPES[dreal], md); return
                if len(g1) != len(E):
                    res.disagree('array call: number of results', case, len(E), len(g1)); return
                for i in range(len(E)):
                    if math.isfinite(E[i]) and not close(g1[i], E[i], tol):
                        reuse = all(close(a, b, tol) for a, b in zip(g2, E))
                        res.disagree('array call: row %d of compute vs the model computeRows (= the single-row energy of every row)%s'
                                     % (i, ' — the implementation equals the reuse-previous-row variant computeRowsReuse' if reuse else ''), dict(case, row=i), float(E[i]), g1[i]); return
                if Ep is not None and len(g3) == len(Ep):
                    for i in range(len(Ep)):
                        if math.isfinite(Ep[i]) and not close(g3[i], Ep[i], tol):
                            res.disagree('array call on permuted rows: position %d vs the model computeRows (takeRows rows idx)' % i, dict(case, perm=idx), float(Ep[i]), g3[i]); return
                if any(not (a == b or (a != a and b != b)) for a, b in zip(g3, g4)):
                    res.disagree('model: computeRows (takeRows rows idx) != takeRows (computeRows rows) idx', dict(case, perm=idx), g4, g3)
            shape_code = H_SHAPE_CODE[name.upper()]
            lines.append('el.rows %d %d %s %d %s %d %s %d %s' % (shape_code, len(nodes), ' '.join('%s %s %s %s' % (enc_list(nd[0]), enc_list(nd[1]), enc_list(nd[2]), f2b(nd[3])) for nd in nodes),
                                                                len(toks), ' '.join(toks), nrow, ' '.join(enc_list(x) for x in rows), len(idx), ' '.join(str(i) for i in idx)))
            checks.append(('array-call', case, chk))
            res.count('rows-model-lines')
    for k in range(n or ctx.n(96, 1200)):
        attempt(res, 'array-call', k, _case_rows)
    return lines, checks


# ------------------------------------------------------------------ precipitate rotation vs matrix rotation (real code only)
# Direct oracle for "the energy does not depend on the orientation of the matrix axes" with an ISOTROPIC matrix and an
# explicitly given anisotropic (cubic) precipitate stiffness.  Rotating an isotropic tensor changes nothing, so
#   (a) E(setRotationMatrix(R), C_prec)                      = E(no rotation, C_prec)
#   (b) E(setRotationPrecipitate(R2), C_prec)                 = E(no rotation, rot4(R2, C_prec) handed over as a tensor)
#   (c) E(setRotationMatrix(R), setRotationPrecipitate(R2))   = E(no rotation, rot4(R2, C_prec))   for every R
# The reference tensor is rotated with this file's own einsum (rot4_own), not with kawin's rotateRank4Tensor; all energies of
# one case run on the same quadrature nodes, so the comparison is at round-off level whatever the table's accuracy.
# Lean: Props/C16.lean has rotate4_formula / rotate4_roundtrip / rotation_after_stiffness (update rotates the matrix tensor with
# `rotation`, the precipitate tensor with `rotationPrec`, independent of call order) but NO theorem "rotating an isotropic
# stiffness is the identity", so these clauses are monitored by the oracle only.
PRECROT_TOL = 1e-10        # measured on the unchanged tree: worst relative difference 3.1e-14 over 30 seeds x 240 cases (the defect it is meant for: 1e-5 .. 0.4)
PRECROT_SHAPES = ['sphere', 'needle', 'plate', 'general']
PRECROT_FORMS = ['constants', '6x6', '3x3x3x3']
PRECROT_KEYS = {'a': 'precrot:isotropic-matrix-rotation-changes-energy',
                'b': 'precrot:precipitate-rotation-vs-prerotated-tensor',
                'c': 'precrot:precipitate-rotation-under-matrix-rotation'}


def precrot_object(EF, cfg, rot, rotP, prec4=None):
    """fresh ellipsoidal StrainEnergy: isotropic matrix cfg['cM'], precipitate either the cubic constants cfg['cP'] in the recorded
    input form or the given 4th-rank tensor; rotations before or after the stiffness as recorded"""
    se = EF.StrainEnergy('ellipsoid')
    if cfg['order'] != 'high':
        se.description.setLebedevIntegration(cfg['order'])

    def rots():
        if rot is not None:
            se.setRotationMatrix(np.array(rot, dtype=float))
        if rotP is not None:
            se.setRotationPrecipitate(np.array(rotP, dtype=float))

    def stiff():
        se.setElasticConstants(*cfg['cM'])
        if prec4 is not None:
            se.setElasticTensorPrecipitate(np.array(prec4, dtype=float))
        elif cfg['form'] == 'constants':
            se.setElasticConsantsPrecipitate(*cfg['cP'])
        elif cfg['form'] == '6x6':
            se.setElasticTensorPrecipitate(EF.elasticConstantToC(*cfg['cP']))
        else:
            se.setElasticTensorPrecipitate(own_2to4(np.array(EF.elasticConstantToC(*cfg['cP']), dtype=float)))
    for f in ((rots, stiff) if cfg['rot_first'] else (stiff, rots)):
        f()
    se.setEigenstrain(np.array(cfg['eig'], dtype=float))
    return se


def precrot_failures(EF, cfg, stats=None):
    """[{key, what, observed, required}] for one recorded configuration (JSON-able cfg: cM, cP, eig, r, R, R2, order, form, rot_first)"""
    rad = np.array(cfg['r'], dtype=float); R, R2 = np.array(cfg['R'], dtype=float), np.array(cfg['R2'], dtype=float)
    C4 = own_2to4(np.array(EF.elasticConstantToC(*cfg['cP']), dtype=float))
    en = lambda se: float(se.compute(rad))
    e_plain = en(precrot_object(EF, cfg, None, None))
    e_pre = en(precrot_object(EF, cfg, None, None, prec4=rot4_own(R2, C4)))
    e_pre_k = en(precrot_object(EF, cfg, None, None, prec4=EF.rotateRank4Tensor(R2, C4)))
    obs = {'a': (en(precrot_object(EF, cfg, R, None)), e_plain,
                 'isotropic matrix, cubic precipitate: the energy changes when only the matrix axes are rotated (setRotationMatrix)'),
           'b': (en(precrot_object(EF, cfg, None, R2)), e_pre,
                 'setRotationPrecipitate(R2) with the unrotated cubic tensor != handing over the tensor already rotated by R2'),
           'c': (en(precrot_object(EF, cfg, R, R2)), e_pre,
                 'isotropic matrix rotated by R: setRotationPrecipitate(R2) != pre-rotated precipitate tensor (precipitate rotation ignored or mixed with the matrix rotation)')}
    fails = []
    if not close(e_pre_k, e_pre, PRECROT_TOL):
        fails.append(dict(key='precrot:rotateRank4Tensor-vs-einsum', what='energy with the precipitate tensor rotated by rotateRank4Tensor != rotated by an independent einsum',
                          observed=e_pre_k, required=e_pre))
    for c, (got, want, what) in obs.items():
        if stats is not None and want:
            stats[c] = max(stats.get(c, 0.0), abs(got - want) / max(abs(got), abs(want)))
        if not (math.isfinite(got) and math.isfinite(want)) or not close(got, want, PRECROT_TOL):
            fails.append(dict(key=PRECROT_KEYS[c], what=what + ' (%s, quadrature %s, precipitate given as %s, rotation %s the stiffness)'
                              % (cfg['shape'], cfg['order'], cfg['form'], 'before' if cfg['rot_first'] else 'after'), observed=got, required=want))
    if stats is not None and e_plain:
        # how much the orientation of the precipitate matters in this case (non-vacuity of b/c)
        stats['effect'] = abs(e_pre - e_plain) / max(abs(e_pre), abs(e_plain))
    return fails


def part_precrot(ctx, res, EF, r, n=None):
    worst = res.extra.setdefault('precrot_worst_rel', {})
    def _case_precrot(k):
        cm = rand_iso(r); cp = rand_cubic(r)
        shape = PRECROT_SHAPES[k % 4]
        a = 10 ** r.uniform(-9.5, -7.5); ar = r.uniform(1.5, 6)
        rad = {'sphere': [a, a, a], 'needle': [a, a, a * ar], 'plate': [a, a, a / ar], 'general': list(a * r.uniform(0.4, 2.5, 3))}[shape]
        cfg = dict(cM=[float(x) for x in cm[:3]], cP=[float(x) for x in cp], zener=2 * cp[2] / (cp[0] - cp[1]),
                   eig=rand_eig(r, ['diag', 'full'][(k // 4) % 2]).tolist(), r=[float(x) for x in rad], shape=shape,
                   R=rand_rotation(r).tolist(), R2=rand_rotation(r).tolist(),
                   order=['low', 'low', 'low', 'mid', 'low', 'high'][(k // 4) % 6], form=PRECROT_FORMS[(k // 2) % 3], rot_first=bool((k // 3) % 2 == 0))
        _case_precrot.info = cfg
        res.case(('precrot', shape, cfg['order'], cfg['form'], cfg['rot_first'], k)); res.count('precrot:' + shape)
        if k < 1:
            res.sample(cfg)
        st = {}
        with np.errstate(all='ignore'):
            fails = precrot_failures(EF, cfg, st)
        for c in 'abc':
            worst[c] = max(worst.get(c, 0.0), st.get(c, 0.0))
        if st.get('effect', 0.0) > 1e-6:
            res.count('precrot:orientation-of-precipitate-matters')
        for f in fails:
            res.violate(f['key'], f['what'], dict(precrot_replay=cfg), f['observed'], f['required'])
    for k in range(n or ctx.n(48, 480)):
        attempt(res, 'precrot', k, _case_precrot)
    return [], []


# ------------------------------------------------------------------ entry points
def corr(ctx, oracle_only=False, scale=1):
    res = Result()
    res.rule = ('generated defs: every moduliToC pair x random consistent / perturbed moduli, random cubic / isotropic constants, random 3x3 matrices, angles; '
                'tensors: random 6x6, 3x3x3x3 (with and without minor symmetry), rotations (orthogonal and not); energies: stiffness kind (iso pair, iso hom., cubic hom., cubic pair) x '
                'eigenstrain kind (dilatation, diagonal, full symmetric) x shape (sphere, prolate, oblate, triaxial) x quadrature order x rotation; setter sequences: random ops '
                '(18 kinds) on all four initial shapes; order pairs: the same items supplied in two random orders; histories of one object: 3..22 (thorough 60) calls, 40 % observations '
                '(compute on a pool of 3-4 aspect ratios x 2 sizes + random sizes, several radii at once, five energy variants, eqAR searches, a quarter of the histories repeat the same search), 60 % setters '
                '(the 18 kinds, property assignment, setShape by name/instance, quadrature, inverse routine, aspect-ratio table settings); input forms: 6-10 forms per tensor x side x tensor kind (cubic, isotropic, rotated cubic); orientation: matrix kind (isotropic, cubic, misaligned cubic) x shape (tri-axial with a random longest axis and axis ratios 1.25-1.8 between neighbours, spheroid about x / y / z with aspect ratio 1.5-4 either way) x eigenstrain (diagonal with three different entries, full symmetric) x six quadrature schemes x relabellings; array calls: description (8 names cycling) x tensor rank x row layout (run / interleaved / repeated / mixed) x n = 2..8 x two permutations; precipitate rotation: shape (sphere, needle, plate, tri-axial) x eigenstrain (diagonal, full) x quadrature order x input form of the precipitate stiffness (constants, 6x6, 3x3x3x3) x rotations before / after the stiffness, random isotropic matrix, cubic precipitate, two random rotations. non-trivial = non-degenerate input (sequence of >= 3 ops); distinct = (kind tuple, index)')
    res.monitored = list(MONITORED)
    EF, LN = load()
    fast_points(EF, LN)
    r = ctx.nprng()
    lebedev_bad = part_lebedev(ctx, res, LN, r)
    res.extra['lebedev_tables_inexact'] = sorted(lebedev_bad)
    lines, checks = [], []
    for part in (lambda: part_formulas(ctx, res, EF, r), lambda: part_energy(ctx, res, EF, r, lebedev_bad), lambda: part_sequences(ctx, res, EF, r),
                 lambda: part_objects(ctx, res, EF, r)):
        l, c = part()
        lines += l; checks += c
    part_order_oracle(ctx, res, EF, r)
    part_forms(ctx, res, EF, r)
    l, c = part_history(ctx, res, EF, r)
    lines += l; checks += c
    l, c = part_orientation(ctx, res, EF, r, lebedev_bad)        # (last: the random stream of the parts above is unchanged)
    lines += l; checks += c
    l, c = part_rows(ctx, res, EF, r)                            # (after it, for the same reason)
    lines += l; checks += c
    part_precrot(ctx, res, EF, r)                                # (oracle only; after them, for the same reason)
    if ctx.driver_ok and not oracle_only:
        out = vlib.run_driver(PROP, lines)
        for line, ans, (what, case, fn) in zip(lines, out, checks):
            t = Toks(ans)
            if not t.ok:
                res.disagree('model error in ' + what + ': ' + str(t.err), case, 'ok', t.err)
                continue
            try:
                fn(t)
            except Exception as e:
                res.disagree('unreadable model answer in ' + what, case, 'ok', repr(e))
    return res


def search(ctx, broken):
    """something no longer checks: oracle alone on a larger sample"""
    res = Result()
    EF, LN = load()
    fast_points(EF, LN)
    r = ctx.nprng()
    bad = part_lebedev(ctx, res, LN, r)
    class Big:
        thorough = ctx.thorough
        def n(self, q, t): return t if ctx.thorough else (q * 4 if isinstance(q, int) else q)
    big = Big()
    part_formulas(big, res, EF, r)
    part_energy(big, res, EF, r, bad)
    part_order_oracle(big, res, EF, r)
    part_forms(big, res, EF, r)
    part_history(big, res, EF, r)
    part_sequences(big, res, EF, r)
    part_objects(big, res, EF, r)
    part_orientation(big, res, EF, r, bad)
    part_rows(big, res, EF, r)
    part_precrot(big, res, EF, r)
    return res


def replay(ctx, entry):
    """re-evaluates the oracle with the seed / tier of the recorded run and reports whether the recorded key fails again"""
    key = entry['violation']['key'] if 'violation' in entry else None
    case = entry.get('violation', {}).get('case') or {}
    if isinstance(case, dict) and 'replay_ops' in case:
        # a (shrunk) history of one object: run exactly these calls again
        EF, LN = load()
        fast_points(EF, LN)
        hops = [hop_from_json(x) for x in case['replay_ops']]
        fails, _ = run_history(EF, int(case['replay_shape']), hops)
        hits = [f for f in fails if f['key'] == key]
        for f in hits[:3]:
            print('  ', f['key'], f['what'], f['observed'], f['required'])
        return not hits
    if isinstance(case, dict) and ('rows_replay' in case or 'eqar_replay' in case):
        # an array call: the recorded object (constructor, setters, quadrature) and the recorded rows / radii again
        EF, LN = load()
        fast_points(EF, LN)
        if 'rows_replay' in case:
            j = case['rows_replay']
            fails, _, _ = rows_failures(EF, rows_object(EF, rows_cfg_from_json(j['cfg'])), np.array(j['rows'], dtype=float), j['ids'], j['fs'], [np.array(p, dtype=int) for p in j['perms']])
        else:
            j = case['eqar_replay']
            fails = eqar_failures(EF, rows_object(EF, rows_cfg_from_json(j['cfg'])), j['which'], np.array(j['R'], dtype=float), j['gamma'], j['sf'], np.array(j['perm'], dtype=int)) or []
        hits = [f for f in fails if f['key'] == key]
        for f in hits[:3]:
            print('  ', f['key'], f['what'], f['observed'], f['required'])
        return not hits
    if isinstance(case, dict) and 'precrot_replay' in case:
        # isotropic matrix + rotated cubic precipitate: the recorded configuration again
        EF, LN = load()
        fast_points(EF, LN)
        with np.errstate(all='ignore'):
            fails = precrot_failures(EF, case['precrot_replay'])
        hits = [f for f in fails if f['key'] == key]
        for f in hits[:3]:
            print('  ', f['key'], f['what'], f['observed'], f['required'])
        return not hits
    c2 = vlib.Ctx(PROP, entry.get('tier', 'quick'), entry.get('seed', 0))
    c2.driver_ok = False
    r = corr(c2, oracle_only=True)
    hits = [v for v in r.violations if key is None or v['key'] == key]
    for v in hits[:3]:
        print('  ', v['key'], v['what'], v['observed'], v['required'])
    return not hits
