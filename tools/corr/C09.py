"""C09 — thermodynamic queries are pure; the diffusion composition cache is sound.

corr(ctx):
  A. HashTable op sequences on the REAL class vs KawinV.HashCache (hits/misses/values/keys exact) + direct oracle
     (every hit must come from an add with the same unbounded-integer key at the same sensitivity, no clear since;
     after enableCaching(False) nothing is returned or stored; arguments unchanged).
  B. _process_xT_arrays / _process_TG_arrays / _process_x, the hand-rolled broadcasting of
     MulticomponentThermodynamics.getInterfacialComposition and the gExtra handling of
     BinaryThermodynamics.getInterfacialComposition (pycalphad stubbed out) vs KawinV.Broadcast + direct oracle.
  C. real query sequences on the shipped Al-Zr / Ni-Al-Cr / Al-Mg-Si (5 precipitate phases) / Fe-Cr-Ni (2 phases with
     mobilities) objects, default and non-default phase= / precPhase= interleaved, with run-time instrumentation of
     local_equilibrium / Solver / Workspace / calculate: the event trace and cache occupancy of every query are
     replayed through KawinV.CompSetCache (solver outcomes taken from the run) and compared; direct oracle:
     composition sets reach the solver with refreshed state variables, samples are used under their own tag,
     removeCache empties the touched caches, a query for phase p writes no cache entry of another phase and starts no
     equilibrium from composition sets of another phase.
  E. diffusion node loops (SinglePhaseModel._getFluxes, HomogenizationModel._getFluxes -> computeMobility) on SHALLOW profiles
     (neighbours differing by 1e-12..1e-4 relative: ramps, noisy plateaus, plateau-ramp-plateau), cache off or precision 4..10:
     the interdiffusivity (recovered from the fluxes) / mobility + chemical potentials the model uses at node i must equal a
     node-by-node reference without any table at the node's OWN composition (rtol 1e-9) — resp. at the first node with the same
     key when the cache is on; the nodes at which the thermodynamics is evaluated are compared with KawinV.HashCache.cachedQuery
     threaded over the nodes (driver verb nodes.run).
  D. MONITORED (oracle only): numerical purity of the pycalphad-backed values — every value of the warmed object is
     compared with a cleared reference object (and some brand-new objects), arrays vs single points, arguments
     compared before/after every public call.
"""
import copy, math, types, warnings
import numpy as np
import vlib
from vlib import Result, enc_list, f2b, b2f, close

PROP = 'C09'
META = {
    'level_text': 'Lean 4 theorems, for every operation/query sequence of any length (induction), about executable models of (1) the HashTable of the diffusion models: a hit only ever returns a value stored under the same key at the same sensitivity with no clear in between, after enableCaching(False) nothing is returned or stored, the retrieve-else-compute-and-add idiom returns f at an argument with the same key, the int64 key is faithful inside its range (and the shipped int32 key, the shipped is-None switch and the shipped non-clearing setHashSensitivity are proved wrong on concrete witnesses); (2) the broadcasting helpers: equal lengths on success, singleton repeated, unequal lengths rejected, every array query is map-single over the broadcast pairs (also with the cache state threaded through), the caller\'s gExtra is not modified, the isothermal shortcut of the binary interfacial composition is taken iff all temperatures are equal and then evaluates exactly the broadcast (T, GE) points (binaryIC_isothermal/_nonisothermal/_points); (3) the cache state machine of the thermodynamics classes with pycalphad as a parameter: every solver call that receives cached composition sets receives them with the state variables of its own conditions, sampled points are only used under their own temperature tag and changing the density empties them, removeCache leaves the touched caches empty, each branch of the tangent method leaves a stated precipitate entry (empty after the collapsed branch: tangent_collapsed_leaves_empty), every cache is keyed by the phase it belongs to — a query with phase=/precPhase= p changes no entry of another phase (Kept) and its answer and own entries are determined by the entries of p alone, whatever the other phases hold (Agree/Sim, query_ignores_other_phases, diffusivity_unaffected_by_other_phase) — and IF the solver is start-independent (hypothesis) every query result after any history equals the result on a new object and is an explicit function of the arguments. All three models are tied to /repo on every run (exact differential correspondence for (1),(2); trace refinement of instrumented real runs — all cache slots of all phases compared after every query — on the shipped Al-Zr, Ni-Al-Cr, Al-Mg-Si (five precipitate phases, precPhase= varied), Fe-Cr-Ni (FCC_A1 + BCC_A2 with mobilities, phase= varied) and binary Ni-Al (ordered FCC_L12) objects for (3)); driving-force sequences go undersaturated -> supersaturated -> back on one object for all four methods, temperature arrays are all-equal / first=last!=middle / two-equal / free. Round 6: (4) the solves-but-unstable / unconverged branch of _getCompositionSetsForDF leaves the driving-force entry of that precipitate empty (unstable_branch_leaves_empty; witness unstable_branch_keeping_variant_history_dependent on a local toy solver that cannot re-add a phase) — histories two-phase -> matrix-only -> the same two-phase point for all four methods on Ni-Al-Cr and Al-Zr, slot compared after every query and checked directly (df-cache-kept-after-unstable-equilibrium); (5) a curvatureFactor(removeCache=True) query — also through the invalid-equilibrium helper — leaves the curvature entry empty and answers None or newly computed factors, never the stored output of an earlier call (removeCache_true_leaves_empty_and_fresh; witness removeCache_true_variant_returns_earlier_output), MIXED removeCache sequences for curvatureFactor / getGrowthAndInterfacialComposition / impingementFactor; (6) the node loop of the diffusion models is cachedQuery threaded over the nodes: with the cache off every node gets the thermodynamics at its own composition (node_loop_off_own_values, node_miss_own_value; witness neighbour_copy_variant_chains), tied to SinglePhaseModel / HomogenizationModel on shallow profiles by nodes.run (which nodes evaluate the thermodynamics) and checked on the fluxes / mobilities at rtol 1e-9.',
    'level_note': 'MONITORED ONLY (oracle, no proof): numerical purity of the pycalphad-backed values, i.e. that the real minimiser is start-independent to the solver tolerance — query sequences (orders, repetitions, temperature jumps, removeCache on/off, alone vs in arrays, cleared vs brand-new vs warmed objects) on the shipped Al-Zr, Ni-Al-Cr, Al-Mg-Si and Fe-Cr-Ni objects, with non-default phase=/precPhase= arguments interleaved, compared at rtol 1e-6; the vectorised GE axis of BinaryThermodynamics.getInterfacialComposition (one pycalphad workspace). Not modelled: computeSearchDir=True, local_phase_sampling_conditions (held at None; the sample cache is tagged by T only), the beta fallback of impingementFactor (finding impingement-none-falls-back-on-previous-beta; its curvatureFactor call is modelled), _interfacialCompositionFromCurvature, phase_records.models switching in _setupSubModels. Trusted: Python hash of an int tuple is injective on the keys met (hash(-1)==hash(-2) concerns negative components only); NumPy float->int cast semantics as observed on this platform (out of range -> minimum). Findings kept in the code (known_findings.txt, each emitted under its own key only for its own class, identified from the instrumented trace): curvatureFactor / getGrowthAndInterfacialComposition answer with the previous output when the equilibrium at their arguments yields no two-phase result and a cached equilibrium exists (Lean: curvature_res gives the exact characterisation); the cached list can lose the precipitate in place and then poisons later queries without searchDir; and the cached-start local equilibrium of _getCompositionSetsEq (curvature factors, approximate/curvature driving force) can find other phases than the global equilibrium of a new object near the phase boundary — i.e. the StartIndependent hypothesis of the purity theorem is FALSE for the real pycalphad local solver there; and the default tangent driving force of an ORDERED precipitate restarted from the cached composition set can reach another tangent point than from a fresh sample (binary Ni-Al: -169 instead of +270 J/mol after an undersaturated first query; key tangent-cached-start-other-stationary-point). The diffusivities, the interfacial compositions and the driving forces on stoichiometric precipitates showed no history dependence at rtol 1e-6.',
    'technique': 'Lean 4 proofs by induction over operation/query histories + exact model/implementation correspondence + trace refinement of instrumented real runs + differential oracle (warmed vs fresh objects)',
    'design_ref': 'DESIGN.md section 6, C09',
}
LEAN_MODULES = ['KawinV.Props.C09']
MONITORED = [
    'numerical purity of pycalphad-backed values (start-point independence of the minimiser) on Al-Zr, Ni-Al-Cr, binary Ni-Al (ordered L12), Al-Mg-Si (5 precipitate phases) and Fe-Cr-Ni (2 phases with mobilities): warmed vs cleared vs new objects, alone vs in arrays, default and non-default phase=/precPhase=, rtol 1e-6',
    'BinaryThermodynamics.getInterfacialComposition with one common temperature (vectorised GE axis inside one pycalphad workspace) vs point-by-point evaluation',
]
ASSUMPTIONS = [
    'compositions in [0,1], temperatures 300..3000 K, cache sensitivities 0..12 (0..15 thorough): |v*10^s| < 2^63, where the int64 key is exact; beyond that the cast collapses again (Lean: int64_residual_collision)',
    'conditional purity is proved under the hypothesis that the solver result does not depend on the supplied start; for the real pycalphad this is monitored at rtol 1e-6, not proved',
    'local_phase_sampling_conditions=None and computeSearchDir=False throughout',
    'values compared with rtol 1e-6 (absolute floor 1e-4 J/mol for driving forces, 1e-9 for mole fractions, 1e-7 of the largest entry for the entries of a diffusivity matrix / vector)',
]
TRUSTED = [
    'Python hash() of a tuple of ints is collision-free on the keys met in a run',
    'NumPy astype(int64) of an out-of-range/NaN double yields -2^63 (as observed on this platform and modelled by castBits)',
    'pycalphad Solver/Workspace/calculate are black boxes: only their call pattern is modelled',
]

RTOL = 1e-6


# =============================================================================================== A. HashTable
def _rand_comp(rng, ncomp, s):
    kind = rng.choice(['uniform', 'uniform', 'dilute', 'edge', 'bigT-collide', 'grid'])
    if kind == 'uniform':
        x = [rng.uniform(0, 1.0 / ncomp) for _ in range(ncomp)]
    elif kind == 'dilute':
        x = [10 ** rng.uniform(-12, -2) for _ in range(ncomp)]
    elif kind == 'edge':
        x = [rng.choice([0.0, 1.0, 0.5, 1e-300, 0.3, 0.9, 0.29, 0.57]) for _ in range(ncomp)]
    elif kind == 'grid':
        x = [rng.randint(0, 10 ** min(s, 3)) / 10.0 ** min(s, 3) for _ in range(ncomp)]
    else:
        x = [rng.choice([0.3, 0.9, 0.6, 0.75]) for _ in range(ncomp)]
    T = rng.choice([rng.uniform(300, 3000), float(rng.randint(3, 30) * 100), 1000.0, 1500.0, 723.15])
    return x, T


def gen_hash_case(rng, smax):
    ncomp = rng.choice([1, 1, 2, 2, 3, 4])
    n = rng.randint(3, 40)
    s = rng.choice([4, 4] + list(range(0, smax + 1)))
    ops = []
    if s != 4 or rng.random() < 0.3:
        ops.append(('S', s))
    pool = []
    val = 0
    for _ in range(n):
        r = rng.random()
        if r < 0.08:
            ops.append(('E', rng.random() < 0.5))
        elif r < 0.13:
            ops.append(('C',))
        elif r < 0.20:
            s = rng.randint(0, smax)
            ops.append(('S', s))
        else:
            if pool and rng.random() < 0.55:
                x, T = rng.choice(pool)
                m = rng.random()
                if m < 0.35:      # same key region: perturb below the resolution
                    x = [v + rng.uniform(0, 0.3) * 10.0 ** (-s) for v in x]
                elif m < 0.5:     # neighbouring key
                    x = [v + rng.choice([-1, 1]) * 10.0 ** (-s) for v in x]
                elif m < 0.6:
                    T = T + rng.choice([0.0, 0.3 * 10.0 ** (-s), 1.0, 500.0])
            else:
                x, T = _rand_comp(rng, ncomp, s)
            pool.append((x, T))
            if rng.random() < 0.5:
                val += 1
                ops.append(('A', x, T, val))
            else:
                ops.append(('R', x, T))
    return ops


def enc_hash_ops(ops):
    toks = [str(len(ops))]
    for o in ops:
        if o[0] == 'E':
            toks += ['E', 'T' if o[1] else 'F']
        elif o[0] == 'C':
            toks.append('C')
        elif o[0] == 'S':
            toks += ['S', str(o[1])]
        elif o[0] == 'A':
            toks += ['A', enc_list(o[1]), f2b(o[2]), str(o[3])]
        else:
            toks += ['R', enc_list(o[1]), f2b(o[2])]
    return ' '.join(toks)


def exact_key(s, x, T):
    """the unbounded-integer key: truncation toward zero of the double product v*10^s"""
    f = float(10 ** s)
    return tuple(int(float(v) * f) for v in list(x) + [T])


def run_hash_real(ops):
    """returns (outs, hashes, ndistinct, flag, oracle_violations, argmod)"""
    from kawin.diffusion.DiffusionParameters import HashTable
    ht = HashTable()
    outs, hashes, viol = [], [], []
    s = 4
    enabled = True
    live = []          # (exact_key, sens, value) added while enabled, not cleared since
    argmod = False
    for i, o in enumerate(ops):
        if o[0] == 'E':
            ht.enableCaching(o[1]); enabled = bool(o[1]); outs.append('-')
        elif o[0] == 'C':
            ht.clearCache(); live = []; outs.append('-')
        elif o[0] == 'S':
            ht.setHashSensitivity(o[1]); s = o[1]; outs.append('-')
            # entries formed at another precision must not answer later queries: remember them as stale
            live = [(k, ss, v, True) for (k, ss, v, _) in live]
        elif o[0] == 'A':
            x = np.array(o[1], dtype=np.float64); x0 = x.copy()
            before = len(ht.cachedData)
            hashes.append(ht._hashingFunction(x, o[2]))
            ht.addToHashTable(x, o[2], o[3])
            argmod |= not np.array_equal(x, x0)
            if enabled:
                live.append((exact_key(s, o[1], o[2]), s, o[3], False))
            elif len(ht.cachedData) != before or ht.cachedData.get(hashes[-1]) == o[3]:
                viol.append(('hash-cache-not-switched-off', 'addToHashTable stored a value after enableCaching(False)', i))
            outs.append('-')
        else:
            x = np.array(o[1], dtype=np.float64); x0 = x.copy()
            hashes.append(ht._hashingFunction(x, o[2]))
            v = ht.retrieveFromHashTable(x, o[2])
            argmod |= not np.array_equal(x, x0)
            outs.append('M' if v is None else 'H%d' % v)
            if v is not None:
                if not enabled:
                    viol.append(('hash-cache-not-switched-off', 'retrieveFromHashTable returned a value after enableCaching(False)', i))
                k = exact_key(s, o[1], o[2])
                src = [e for e in live if e[2] == v]
                if not src:
                    viol.append(('hash-reuse-of-cleared-or-unstored-value', 'hit returned a value that no live add stored', i))
                else:
                    ek, es, _, stale = src[-1]
                    if stale or es != s:
                        viol.append(('hash-reuse-across-sensitivities', 'value stored at sensitivity %d returned at sensitivity %d (keys are formed at different precisions)' % (es, s), i))
                    elif ek != k:
                        big = max(abs(c) for c in ek + k)
                        why = 'component-beyond-int32' if 2 ** 31 <= big < 2 ** 63 else 'component-beyond-int64' if big >= 2 ** 63 else 'different-key'
                        viol.append(('hash-reuse-wrong-key:' + why, 'value stored for key %s returned for key %s at sensitivity %d' % (ek, k, s), i))
    return outs, hashes, len(ht.cachedData), bool(ht._cache), viol, argmod


def corr_hash(ctx, res, ncases, use_model=True):
    smax = ctx.n(12, 15)
    cases, lines, real = [], [], []
    for _ in range(ncases):
        ops = gen_hash_case(ctx.rng, smax)
        ok, r = vlib.guarded(res, 'HashTable-op-sequence', {'part': 'hash', 'ops': [list(o) for o in ops]}, run_hash_real, ops)
        if not ok:
            res.count('hash:raised')
            continue
        cases.append(ops)
        real.append(r)
        lines.append('hash.run T T 64 ' + enc_hash_ops(ops))
    model = vlib.run_driver(PROP, lines) if (use_model and ctx.driver_ok) else None
    for k, (ops, (outs, hashes, nd, flag, viol, argmod)) in enumerate(zip(cases, real)):
        nhit = sum(1 for o in outs if o.startswith('H'))
        res.case(('hash', k, len(ops), nhit), nhit > 0)
        res.count('hash:ops', len(ops)); res.count('hash:hits', nhit)
        res.count('hash:misses', sum(1 for o in outs if o == 'M'))
        for o in ops:
            if o[0] == 'S':
                res.count('hash:sens>=7' if o[1] >= 7 else 'hash:sens<7')
        desc = {'part': 'hash', 'ops': [list(o) for o in ops]}
        if k < 1:
            res.sample({'part': 'hash', 'ops': [list(o) for o in ops[:6]], 'outs': outs[:6]})
        for key, what, i in viol:
            res.violate(key, what + ' (op %d of the sequence)' % i, dict(desc, failing_op=i), outs[i], 'miss / no-op')
        if argmod:
            res.violate('hash-call-modifies-arguments', 'a HashTable call modified its composition array', desc)
        if model is not None:
            ans = model[k]
            if not ans.startswith('ok '):
                res.disagree('hash.run model error', desc, 'ok', ans); continue
            parts = ans[3:].split(' | ')
            mouts = parts[0].split()
            if mouts != outs:
                j = next((i for i, (a, b) in enumerate(zip(outs, mouts)) if a != b), None)
                res.disagree('HashTable hit/miss/value sequence (first difference at op %s)' % j, desc, outs, mouts); continue
            kt = parts[1].split(); pos = 0; mk = []
            while pos < len(kt):
                n = int(kt[pos]); mk.append(tuple(int(t) for t in kt[pos + 1:pos + 1 + n])); pos += 1 + n
            mh = [hash(t) for t in mk]
            if mh != hashes:
                j = next((i for i, (a, b) in enumerate(zip(hashes, mh)) if a != b), None)
                res.disagree('_hashingFunction value (key #%s: model key %s)' % (j, mk[j] if j is not None and j < len(mk) else None), desc, hashes, mh); continue
            mt = parts[2].split()
            if int(mt[0]) != nd or (mt[1] == 'T') != flag:
                res.disagree('final table size / flag', desc, [nd, flag], mt)


# =============================================================================================== B. broadcasting
def _rand_arg(rng, kinds=('s', 'v', 'm'), maxlen=5):
    k = rng.choice(kinds)
    if k == 's':
        return ('s', rng.uniform(0, 1))
    if k == 'v':
        n = rng.choice([0, 1, 1, 2, 3, 3, 4, maxlen])
        return ('v', [rng.uniform(0, 1) for _ in range(n)])
    r = rng.choice([1, 1, 2, 3, 4]); c = rng.choice([1, 1, 2, 3])
    return ('m', [[rng.uniform(0, 1) for _ in range(c)] for _ in range(r)])


def _np_arg(a, as_list=False):
    if a[0] == 's':
        return float(a[1])
    if as_list:
        return copy.deepcopy(a[1])
    return np.array(a[1], dtype=np.float64)


def _enc_arg(a):
    if a[0] == 's':
        return 's ' + f2b(a[1])
    if a[0] == 'v':
        return 'v ' + enc_list(a[1])
    rows = a[1]
    return 'm %d %d %s' % (len(rows), len(rows[0]), ' '.join(f2b(v) for r in rows for v in r))


def _fmt_list(xs):
    return enc_list([float(v) for v in xs])


def _same(a, b):
    if isinstance(a, np.ndarray):
        return isinstance(b, np.ndarray) and a.shape == b.shape and np.array_equal(a, b)
    return a == b


def corr_broadcast(ctx, res, ncases, use_model=True):
    from kawin.thermo import utils as U
    from kawin.thermo.BinTherm import BinaryThermodynamics
    from kawin.thermo.MultiTherm import MulticomponentThermodynamics
    import kawin.thermo.BinTherm as BT
    from pycalphad import variables as v
    rng = ctx.rng
    lines, expect, descs = [], [], []
    outer = res

    def one_case(k, res, add, cur):
        which = rng.choice(['xt', 'xt', 'xt', 'tg', 'tg', 'x', 'mic', 'bic', 'bic'])
        cur['fn'] = which
        res.count('bc:' + which)
        if which == 'xt':
            x = _rand_arg(rng); T = _rand_arg(rng, ('s', 'v', 'v')); isb = rng.random() < 0.5
            xa, Ta = _np_arg(x), _np_arg(T); x0, T0 = copy.deepcopy(xa), copy.deepcopy(Ta)
            desc = cur['desc'] = {'part': 'broadcast', 'fn': '_process_xT_arrays', 'x': x, 'T': T, 'isBinary': isb}
            try:
                xo, To = U._process_xT_arrays(xa, Ta, isb)
                impl = 'ok O %d %s %s' % (len(xo), ' '.join(_fmt_list(r) for r in xo), _fmt_list(To))
                # direct oracle
                lx = len(np.atleast_2d(x0).T) if (isb and np.atleast_2d(x0).shape[1] != 1) else len(np.atleast_2d(x0))
                lT = len(np.atleast_1d(T0))
                if len(xo) != len(To):
                    res.violate('broadcast-unequal-lengths', '_process_xT_arrays returned arrays of different lengths', desc, [len(xo), len(To)])
                if lx != lT and lx != 1 and lT != 1:
                    res.violate('broadcast-accepts-mismatch', '_process_xT_arrays accepted incompatible lengths', desc, [lx, lT])
                if lx == 1 and lT != 1 and not all(np.array_equal(r, xo[0]) for r in xo):
                    res.violate('broadcast-singleton-not-repeated', 'singleton x not repeated', desc)
                if lT == 1 and lx != 1 and not all(t == To[0] for t in To):
                    res.violate('broadcast-singleton-not-repeated', 'singleton T not repeated', desc)
            except ValueError as e:
                impl = 'ok E length'
                lx = len(np.atleast_2d(x0).T) if (isb and np.atleast_2d(x0).shape[1] != 1) else len(np.atleast_2d(x0))
                lT = len(np.atleast_1d(T0))
                if lx == lT or lx == 1 or lT == 1:
                    res.violate('broadcast-rejects-compatible', '_process_xT_arrays rejected compatible lengths', desc, [lx, lT], str(e))
            if not (_same(xa, x0) and _same(Ta, T0)):
                res.violate('broadcast-modifies-arguments', '_process_xT_arrays modified its arguments', desc)
            add('bc.xt %s %s %s' % ('T' if isb else 'F', _enc_arg(x), _enc_arg(T)), impl, desc)
            res.case(('xt', k), impl.startswith('ok O'))
        elif which == 'tg':
            T = _rand_arg(rng, ('s', 'v', 'v')); g = _rand_arg(rng, ('s', 'v', 'v'))
            Ta, ga = _np_arg(T), _np_arg(g); T0, g0 = copy.deepcopy(Ta), copy.deepcopy(ga)
            desc = cur['desc'] = {'part': 'broadcast', 'fn': '_process_TG_arrays', 'T': T, 'g': g}
            lT, lg = len(np.atleast_1d(T0)), len(np.atleast_1d(g0))
            try:
                To, go = U._process_TG_arrays(Ta, ga)
                impl = 'ok O %s %s' % (_fmt_list(To), _fmt_list(go))
                if len(To) != len(go):
                    res.violate('broadcast-unequal-lengths', '_process_TG_arrays returned arrays of different lengths', desc)
                if lT != lg and lT != 1 and lg != 1:
                    res.violate('broadcast-accepts-mismatch', '_process_TG_arrays accepted incompatible lengths', desc)
            except ValueError as e:
                impl = 'ok E length'
                if lT == lg or lT == 1 or lg == 1:
                    res.violate('broadcast-rejects-compatible', '_process_TG_arrays rejected compatible lengths', desc, [lT, lg], str(e))
            if not (_same(Ta, T0) and _same(ga, g0)):
                res.violate('broadcast-modifies-arguments', '_process_TG_arrays modified its arguments', desc)
            add('bc.tg %s %s' % (_enc_arg(T), _enc_arg(g)), impl, desc)
            res.case(('tg', k), impl.startswith('ok O'))
        elif which == 'x':
            x = _rand_arg(rng, ('s', 'v', 'v')); n = rng.randint(1, 5)
            xa = _np_arg(x); x0 = copy.deepcopy(xa)
            desc = cur['desc'] = {'part': 'broadcast', 'fn': '_process_x', 'x': x, 'numElements': n}
            xo = U._process_x(xa, n)
            add('bc.x %d %s' % (n, _enc_arg(x)), 'ok O ' + _fmt_list(xo), desc)
            if not _same(xa, x0):
                res.violate('broadcast-modifies-arguments', '_process_x modified its argument', desc)
            res.case(('x', k), True)
        elif which == 'mic':
            T = _rand_arg(rng, ('s', 'v', 'v')); g = _rand_arg(rng, ('s', 'v', 'v'))
            if g[0] == 'v' and len(g[1]) == 0:
                g = ('s', 0.0)
            Ta, ga = _np_arg(T), _np_arg(g); T0, g0 = copy.deepcopy(Ta), copy.deepcopy(ga)
            desc = cur['desc'] = {'part': 'broadcast', 'fn': 'MulticomponentThermodynamics.getInterfacialComposition (broadcast part)', 'T': T, 'g': g}
            rec = []
            fake = types.SimpleNamespace(phases=['A', 'B'])
            fake._interfacialComposition = lambda x, Ti, gi, ph: (rec.append((float(Ti), float(gi))) or (np.zeros(2), np.zeros(2)))
            try:
                MulticomponentThermodynamics.getInterfacialComposition(fake, [0.1, 0.1], Ta, ga)
                impl = 'ok O %s %s' % (_fmt_list([r[0] for r in rec]), _fmt_list([r[1] for r in rec]))
            except IndexError:
                impl = 'ok E index'
            if not (_same(Ta, T0) and _same(ga, g0)):
                res.violate('multi-ic-modifies-arguments', 'MulticomponentThermodynamics.getInterfacialComposition modified T or gExtra', desc)
            add('bc.mic %s %s' % (_enc_arg(T), _enc_arg(g)), impl, desc)
            res.case(('mic', k), impl.startswith('ok O'))
        else:   # bic: gExtra handling of BinaryThermodynamics.getInterfacialComposition, pycalphad stubbed
            T = _rand_arg(rng, ('s', 's', 'v', 'v')); g = _rand_arg(rng, ('s', 'v', 'v', 'v'))
            if T[0] == 'v' and len(T[1]) > 1:
                # temperature patterns: all equal / first = last != middle / two equal / all different
                m = len(T[1]); a, b = 600.0 + 100 * rng.random(), 750.0 + 100 * rng.random()
                pat = rng.choice(['all-equal', 'all-equal', 'ends-equal', 'ends-equal', 'two-equal', 'random'])
                if pat == 'all-equal':
                    T = ('v', [a] * m)
                elif pat == 'ends-equal':
                    T = ('v', [a] + [b] * (m - 2) + [a]) if m >= 3 else ('v', [a, b])
                elif pat == 'two-equal':
                    tl = [a] * 2 + [b + i for i in range(m - 2)]; rng.shuffle(tl); T = ('v', tl)
                res.count('bc:bic-T-' + pat)
                if g[0] == 'v' and len(g[1]) not in (1, m) and rng.random() < 0.8:
                    g = ('v', [rng.uniform(0, 500) for _ in range(m)])
            if (g[0] == 'v' and len(g[1]) == 0) or (T[0] == 'v' and len(T[1]) == 0):
                g = ('v', [0.0, 100.0]); T = ('s', 700.0)
            as_list = rng.random() < 0.25
            Ta, ga = _np_arg(T), _np_arg(g, as_list); T0, g0 = copy.deepcopy(Ta), copy.deepcopy(ga)
            desc = cur['desc'] = {'part': 'broadcast', 'fn': 'BinaryThermodynamics.getInterfacialComposition (gExtra handling)', 'T': T, 'g': g, 'g_is_list': as_list}
            calls = []

            class FakeWks:
                def __init__(self, db, elements, phases, cond, **kw):
                    calls.append((float(cond[v.T]), [float(z) for z in np.atleast_1d(cond[v.GE])]))
                    self.eq = types.SimpleNamespace(coords={'GE': 0, 'N': 1, 'P': 2, 'T': 3, 'X_B': 4})

                def enumerate_composition_sets(self):
                    return iter(())
            fake = types.SimpleNamespace(phases=['A', 'B'], elements=['A', 'B', 'VA'], gOffset=1, db=None, phase_records=None,
                                         pDens=10, reverse=False, _guessComposition={'B': (0, 1, 0.1)})
            fake._setupSubModels = lambda p=None: (['A', 'B'], {})
            fake._interfacialComposition = types.MethodType(BinaryThermodynamics._interfacialCompositionFromEq, fake)
            saved = BT.Workspace
            BT.Workspace = FakeWks
            try:
                BinaryThermodynamics.getInterfacialComposition(fake, Ta, ga)
                impl_calls = list(calls)
                calls.clear()
                BinaryThermodynamics.getInterfacialComposition(fake, Ta, ga)     # repeat with the SAME objects
                second = list(calls)
                err = None
            except ValueError:
                err = 'ok E length'
            finally:
                BT.Workspace = saved
            if err:
                impl = err
            else:
                after = ga
                impl = 'ok O %d %s | %s' % (len(impl_calls), ' '.join(f2b(c[0]) + ' ' + _fmt_list(c[1]) for c in impl_calls),
                                            ('s ' + f2b(after)) if g[0] == 's' else ('v ' + _fmt_list(after)))
                if not (_same(ga, g0) and _same(Ta, T0)):
                    res.violate('binary-ic-modifies-gExtra', 'BinaryThermodynamics.getInterfacialComposition changed the gExtra array passed to it (in-place += gOffset)',
                                desc, np.asarray(ga).tolist(), np.asarray(g0).tolist())
                # direct oracle of the batching clause: whichever path is taken, the (T, GE) points handed to pycalphad are
                # the broadcast pairs, each at its OWN temperature
                Tb, gb = np.atleast_1d(T0), np.atleast_1d(g0)
                n_ = max(len(Tb), len(gb))
                want = [(float(Tb[i if len(Tb) > 1 else 0]), float(gb[i if len(gb) > 1 else 0]) + 1.0) for i in range(n_)]
                got = [(c[0], z) for c in impl_calls for z in c[1]]
                if got != want:
                    res.violate('binary-ic-point-evaluated-at-other-temperature',
                                'getInterfacialComposition evaluated the (T, GE) points %s, the broadcast pairs are %s' % (got[:6], want[:6]), desc, got, want)
                if second != impl_calls:
                    res.violate('binary-ic-repeat-differs', 'a repeated getInterfacialComposition call with the same array asked pycalphad for different GE values',
                                desc, second, impl_calls)
            add('bc.bic F %s %s %s' % (f2b(1.0), _enc_arg(T), _enc_arg(g)), impl, desc)
            res.case(('bic', k), impl.startswith('ok O'))

    for k in range(ncases):
        tmp = Result(); adds = []; cur = {'part': 'broadcast', 'index': k}
        ok, _ = vlib.guarded(outer, 'broadcast-helper', cur, one_case, k, tmp, lambda l, i, d: adds.append((l, i, d)), cur)
        if not ok:
            outer.count('bc:raised')
            continue
        outer.merge(tmp)
        for l, i, d in adds:
            lines.append(l); expect.append(i); descs.append(d)
    res = outer
    model = vlib.run_driver(PROP, lines) if (use_model and ctx.driver_ok) else None
    if model is not None:
        for a, e, d in zip(model, expect, descs):
            if a != e:
                res.disagree('broadcast helper %s' % d['fn'], d, e, a)
    if descs:
        res.sample({'part': 'broadcast', 'case': descs[0], 'impl': expect[0][:120]})


# =============================================================================================== C/D. thermodynamics objects
GOFF = 1.0


class Instr:
    """run-time instrumentation of the pycalphad entry points kawin's thermodynamics classes use (no edits to /repo)"""
    def __init__(self):
        import kawin.thermo.Thermodynamics as TH
        import kawin.thermo.LocalEquilibrium as LE
        from pycalphad import variables as v
        from pycalphad.core.solver import Solver as RealSolver
        self.TH, self.LE, self.v = TH, LE, v
        self.log = []
        self.on = False
        inst = self
        self.saved = (TH.local_equilibrium, TH.Workspace, TH.calculate, LE.Solver)
        orig_le, orig_wks, orig_calc, _ = self.saved

        class LogSolver:
            def __init__(self, *a, **k):
                self.s = RealSolver(*a, **k)

            def solve(self, composition_sets, conds):
                if inst.on:
                    sv = np.array([conds[v.GE] if v.GE in conds else 0, conds[v.N], conds[v.P], conds[v.T]], dtype=np.float64)
                    stale = [np.array(cs.dof[:4], dtype=np.float64).tolist() for cs in composition_sets
                             if not np.array_equal(np.array(cs.dof[:4], dtype=np.float64), sv)]
                    inst.log.append(('solve', len(composition_sets), stale, sv.tolist()))
                return self.s.solve(composition_sets, conds)

        def le_wrap(dbf, comps, phases, conds, models, phase_records, composition_sets=None):
            given = composition_sets is not None
            in_phases = [cs.phase_record.phase_name for cs in composition_sets] if given else []
            r, sets = orig_le(dbf, comps, phases, conds, models, phase_records, composition_sets=composition_sets)
            if inst.on:
                ge = conds.get(v.GE, None)
                inst.log.append(('L', tuple(phases), given, None if ge is None else float(ge), float(conds[v.T]),
                                 not bool(np.any(np.isnan(r.chemical_potentials))), [cs.phase_record.phase_name for cs in sets], in_phases))
            return r, sets

        def wks_wrap(*a, **k):
            w = orig_wks(*a, **k)
            if inst.on:
                cond = a[3]
                mu = np.squeeze(w.eq.MU)
                inst.log.append(('G', tuple(a[2]), float(cond[v.GE]), float(cond[v.T]), not bool(np.any(np.isnan(mu))),
                                 [cs.phase_record.phase_name for cs in w.get_composition_sets()]))
            return w

        def calc_wrap(*a, **k):
            if inst.on:
                inst.log.append(('C', float(k.get('T')), int(k.get('pdens')), k.get('output')))
            return orig_calc(*a, **k)

        TH.local_equilibrium, TH.Workspace, TH.calculate, LE.Solver = le_wrap, wks_wrap, calc_wrap, LogSolver

    def close(self):
        self.TH.local_equilibrium, self.TH.Workspace, self.TH.calculate, self.LE.Solver = self.saved


def mk_therm(kind, method='tangent', dens=None):
    """the shipped objects, built as kawin/tests and kwnruns.therm_binary()/therm_ternary() build them"""
    if kind == 'B':
        from kawin.tests.datasets import ALZR_TDB
        from kawin.thermo import BinaryThermodynamics
        th = BinaryThermodynamics(ALZR_TDB, ['AL', 'ZR'], ['FCC_A1', 'AL3ZR'], drivingForceMethod=method)
        th.setDFSamplingDensity(dens or 2000); th.setEQSamplingDensity(500)
        th.setDiffusivity(lambda T: 0.0768 * np.exp(-242000 / (8.314 * T)), 'FCC_A1')
    elif kind == 'N':     # binary Ni-Al from the Ni-Cr-Al database: ordered precipitate FCC_L12 in FCC_A1
        from kawin.tests.datasets import NICRAL_TDB
        from kawin.thermo import BinaryThermodynamics
        th = BinaryThermodynamics(NICRAL_TDB, ['NI', 'AL'], ['FCC_A1', 'FCC_L12'], drivingForceMethod=method)
        th.setDFSamplingDensity(dens or 2000); th.setEQSamplingDensity(500)
    elif kind == 'A':     # Al-Mg-Si: five precipitate phases (kawin/tests/test_precipitation.py)
        from kawin.tests.datasets import ALMGSI_DB
        from kawin.thermo import MulticomponentThermodynamics
        th = MulticomponentThermodynamics(ALMGSI_DB, ['AL', 'MG', 'SI'], ['FCC_A1', 'MGSI_B_P', 'MG5SI6_B_DP', 'B_PRIME_L', 'U1_PHASE', 'U2_PHASE'], drivingForceMethod=method)
        th.setDFSamplingDensity(dens or 2000); th.setEQSamplingDensity(500)
    elif kind == 'F':     # Fe-Cr-Ni: two phases that both carry mobility data (kawin/tests/test_diffusion.py)
        from kawin.tests.datasets import FECRNI_DB
        from kawin.thermo import GeneralThermodynamics
        th = GeneralThermodynamics(FECRNI_DB, ['FE', 'CR', 'NI'], ['FCC_A1', 'BCC_A2'], drivingForceMethod=method)
        th.setDFSamplingDensity(dens or 2000)
    else:
        from kawin.tests.datasets import NICRAL_TDB
        from kawin.thermo import MulticomponentThermodynamics
        th = MulticomponentThermodynamics(NICRAL_TDB, ['NI', 'AL', 'CR'], ['FCC_A1', 'FCC_L12'], drivingForceMethod=method)
        th.setDFSamplingDensity(dens or 2000); th.setEQSamplingDensity(500)
    return th


OBJ_NAME = {'N': 'Ni-Al binary (ordered FCC_L12, NICRAL database)', 'B': 'Al-Zr binary', 'M': 'Ni-Al-Cr ternary', 'A': 'Al-Mg-Si ternary (5 precipitate phases)', 'F': 'Fe-Cr-Ni (FCC_A1 + BCC_A2, both with mobilities)'}


_REFS = {}


def ref_therm(kind, method):
    """the reference object of a kind: one per run, emptied (clearCache + curvature outputs) before EVERY reference evaluation,
    so sharing it between sequences does not give it a history; brand-new objects are used besides it (W itself and N)"""
    key = (vlib.REPO, kind)
    if key not in _REFS:
        _REFS[key] = mk_therm(kind, method)
    R = _REFS[key]
    R.setDrivingForceMethod(method)
    R.setDFSamplingDensity(2000)
    reset_ref(R)
    return R


def wrap_singles(th, marks, inst):
    """markers around the single-point methods, so that the events of an array call can be split per point"""
    def mk(name, orig):
        def w(*a, **k):
            i0 = len(inst.log)
            r = orig(*a, **k)
            marks.append((name, a, k, i0, len(inst.log), r))
            return r
        return w
    th._drivingForce = mk('df', th._drivingForce)
    th._rewrap_df = lambda: setattr(th, '_drivingForce', mk('df', th._drivingForce))
    th._interdiffusivitySingle = mk('interdiff', th._interdiffusivitySingle)
    th._tracerDiffusivitySingle = mk('tracer', th._tracerDiffusivitySingle)
    if hasattr(th, 'curvatureFactor'):
        orig_curv = th.curvatureFactor

        def curv_fb(x, T, precPhase=None, *a, **k):
            # `_process_invalid_eq` returns the stored CurvatureOutput object itself; a computed answer is a new object
            before = {p: id(o) for p, o in th._curvature_outputs.items()}
            r = orig_curv(x, T, precPhase, *a, **k)
            if inst.on:
                inst.log.append(('FB', r is not None and id(r) in before.values()))
            return r
        th.curvatureFactor = mk('curv', curv_fb)
        th._interfacialComposition = mk('ic', th._interfacialComposition)
    counts = {'sample_calls': 0}
    orig_s = th._getPrecCompositionSetSamplingDF

    def samp(x, T, mu, precPhase, lpsc=None):
        counts['sample_calls'] += 1
        from kawin.thermo.Thermodynamics import SampledPointsCache
        before = th._points_cache.get(precPhase, SampledPointsCache())
        i0 = len(inst.log)
        r = orig_s(x, T, mu, precPhase, lpsc)
        fresh = any(e[0] == 'C' for e in inst.log[i0:])
        after = th._points_cache.get(precPhase, SampledPointsCache())
        inst.log.append(('S', float(T), None if after.temperature is None else float(after.temperature), fresh,
                         None if before.temperature is None else float(before.temperature), before.samples is not None))
        return r
    th._getPrecCompositionSetSamplingDF = samp
    return counts


B_X = [0.004, 0.002, 0.006, 0.01, 0.0015, 0.0031]
B_T = [723.15, 673.15, 700.0, 773.15, 650.0, 800.0]
M_X2 = [[0.098, 0.083], [0.08, 0.1], [0.085, 0.1], [0.09, 0.1], [0.1, 0.085], [0.095, 0.09]]
M_X1 = [[0.05, 0.05], [0.01, 0.01], [0.03, 0.08]]
M_T = [1073.0, 1073.15, 1023.0, 1100.0, 1050.0, 1123.0]


A_X = [[0.0072, 0.0057], [0.006, 0.006], [0.008, 0.004], [0.005, 0.007]]
A_T = [448.15, 523.15, 473.15, 498.15]
A_P = ['MGSI_B_P', 'MG5SI6_B_DP', 'B_PRIME_L', 'U1_PHASE', 'U2_PHASE']
F_X = [[0.25, 0.05], [0.3, 0.1], [0.2, 0.08], [0.28, 0.03]]
F_T = [1273.15, 1373.15, 1173.15, 1323.15]
F_P = ['FCC_A1', 'BCC_A2']
N_X = [0.16, 0.18, 0.14, 0.2, 0.15, 0.17]
N_XU = [0.12, 0.05, 0.1, 0.13]
N_T = [1073.15, 1173.15, 973.15]
POOLS = {'B': (B_X, B_T), 'M': (M_X2, M_T), 'A': (A_X, A_T), 'F': (F_X, F_T), 'N': (N_X, N_T)}
XUNDER = {'B': [2e-5, 5e-5], 'M': [[0.05, 0.05], [0.01, 0.01], [0.03, 0.08], [0.06, 0.06]], 'N': N_XU, 'A': [], 'F': []}


def t_pattern(rng, Ts, m):
    """a temperature array of length m: all equal / first = last != middle / two equal / free choice"""
    a = rng.choice(Ts); b = rng.choice([t for t in Ts if t != a])
    pat = rng.choice(['all-equal', 'ends-equal', 'ends-equal', 'two-equal', 'random', 'cycle', 'cycle'])
    if pat == 'cycle' and m >= 3 and len(set(Ts)) >= 3:
        # pairwise different temperatures in an order that is neither sorted nor a self-inverse rearrangement of the sorted
        # order (a 3-cycle or longer): distinguishes "results put back by the permutation" from "by its inverse"
        k = min(m, len(set(Ts)))
        base = sorted(rng.sample(sorted(set(Ts)), k))
        while True:
            perm = list(range(k)); rng.shuffle(perm)
            if any(perm[perm[i]] != i for i in range(k)):
                break
        tl = [base[j] for j in perm]
        return tl + [rng.choice(Ts) for _ in range(m - k)]
    if pat == 'all-equal':
        return [a] * m
    if pat == 'ends-equal' and m >= 3:
        return [a] + [b] * (m - 2) + [a]
    if pat == 'two-equal':
        tl = [a, a] + [rng.choice(Ts) for _ in range(m - 2)]; rng.shuffle(tl); return tl
    return [rng.choice(Ts) for _ in range(m)]


def gen_queries(rng, kind, n):
    """public calls; each a dict with name + args; `ph` = phase= of the diffusivity getters, `pp` = precPhase= of the
    driving-force / interfacial-composition / curvature getters (None = the default phase)"""
    qs = []
    Xs, Ts = POOLS[kind]
    if kind in ('A', 'F'):
        curT = rng.choice(Ts); curX = rng.choice(Xs)
        for _ in range(n):
            r = rng.random()
            if r < 0.3:
                pass
            elif r < 0.65:
                curX = rng.choice(Xs)
            else:
                curT = rng.choice(Ts)
            rm = rng.random() < 0.3
            arr = rng.random() < 0.2
            if kind == 'F':
                name = rng.choice(['interdiff', 'interdiff', 'tracer', 'tracer', 'df'])
            else:
                name = rng.choice(['df', 'df', 'df', 'ic', 'curv', 'growth', 'interdiff', 'tracer'])
            if name in ('interdiff', 'tracer'):
                ph = rng.choice(F_P + [None]) if kind == 'F' else None
                if arr:
                    m = rng.randint(2, 4)
                    qs.append(dict(name=name, x=[rng.choice(Xs) for _ in range(m)], T=t_pattern(rng, Ts, m), rm=rm, arr=True, ph=ph))
                else:
                    qs.append(dict(name=name, x=curX, T=curT, rm=rm, arr=False, ph=ph))
            else:
                pp = rng.choice(A_P + [None]) if kind == 'A' else None
                if name == 'df':
                    if arr:
                        m = rng.randint(2, 4)
                        qs.append(dict(name='df', x=[rng.choice(Xs) for _ in range(m)], T=t_pattern(rng, Ts, m), rm=rm, arr=True, pp=pp))
                    else:
                        qs.append(dict(name='df', x=curX, T=curT, rm=rm, arr=False, pp=pp))
                elif name == 'ic':
                    g = [0.0, rng.choice([100.0, 500.0])] if arr else rng.choice([0.0, 150.0])
                    qs.append(dict(name='ic', x=curX, T=curT, g=g, arr=arr, pp=pp))
                elif name == 'curv':
                    qs.append(dict(name='curv', x=curX, T=curT, rm=rm, dir=None, pp=pp))
                else:
                    k = rng.randint(1, 2)
                    qs.append(dict(name='growth', x=curX, T=curT, rm=rm, dG=rng.choice([2000.0, 6000.0]),
                                   R=[rng.uniform(1e-9, 5e-9) for _ in range(k)], g=[rng.uniform(50.0, 400.0) for _ in range(k)], pp=pp))
            if rng.random() < 0.04:
                qs.append(dict(name='clear'))
        return qs
    XU = XUNDER[kind]           # undersaturated (single-phase) compositions, used by the driving-force queries
    curT = rng.choice(Ts); curX = rng.choice(Xs)
    for _ in range(n):
        r = rng.random()
        if r < 0.35:
            pass                                        # repeat the same point (repetition)
        elif r < 0.7:
            curX = rng.choice(Xs)
        else:
            curT = rng.choice(Ts)                       # temperature jump
            if rng.random() < 0.5:
                curX = rng.choice(Xs)
        rm = rng.random() < 0.3
        names = ['df', 'df', 'df', 'interdiff', 'tracer', 'ic'] if kind in ('B', 'N') else \
                ['df', 'df', 'df', 'interdiff', 'tracer', 'ic', 'curv', 'curv', 'growth', 'curv1']
        name = rng.choice(names)
        arr = rng.random() < 0.25
        if name in ('df', 'interdiff', 'tracer'):
            if arr:
                m = rng.randint(2, 4)
                xs = [rng.choice(Xs + XU) if name == 'df' else rng.choice(Xs) for _ in range(m)]
                Tq = t_pattern(rng, Ts, m) if rng.random() < 0.7 else curT
                qs.append(dict(name=name, x=xs, T=Tq, rm=rm, arr=True))
            else:
                xq = rng.choice(XU) if (name == 'df' and XU and rng.random() < 0.3) else curX
                qs.append(dict(name=name, x=xq, T=curT, rm=rm, arr=False))
        elif name == 'ic':
            g = [0.0, rng.choice([100.0, 250.0, 500.0])] if arr else rng.choice([0.0, 150.0, 400.0])
            if kind in ('B', 'N'):
                if arr and rng.random() < 0.7:
                    m = rng.randint(2, 4)
                    Tq = t_pattern(rng, Ts, m)
                    g = [rng.choice([0.0, 100.0, 250.0, 500.0]) for _ in range(m)] if rng.random() < 0.6 else rng.choice([0.0, 5000.0 if kind == 'B' else 300.0])
                else:
                    Tq = curT
                qs.append(dict(name='ic', T=Tq, g=g, arr=arr))
            else:
                qs.append(dict(name='ic', x=curX, T=curT, g=g, arr=arr))
        elif name == 'curv':
            qs.append(dict(name='curv', x=curX, T=curT, rm=rm, dir=None))
        elif name == 'curv1':     # a single-phase composition: with a search direction, or without (fallback path)
            x1 = rng.choice(M_X1)
            qs.append(dict(name='curv', x=x1, T=curT, rm=rm, dir=([0.18, 0.06] if rng.random() < 0.5 else None)))
        else:
            k = rng.randint(1, 3)
            qs.append(dict(name='growth', x=curX, T=curT, rm=rm, dG=rng.choice([200.0, 600.0]),
                           R=[rng.uniform(1e-9, 5e-9) for _ in range(k)], g=[rng.uniform(50.0, 400.0) for _ in range(k)]))
        if rng.random() < 0.04:
            qs.append(dict(name='clear'))
        if rng.random() < 0.03:
            qs.append(dict(name='dens', d=rng.choice([1500, 2000, 1000])))
    return qs


def insert_mixed(rng, qs):
    """MIXED removeCache usage (own random stream): a curvature / impingement query that keeps its equilibrium, then removeCache=True
    queries at a single-phase composition without searchDir (curvature factors / growth / impingement), spliced into a sequence"""
    for _ in range(rng.randint(1, 2)):
        blk = [dict(name=rng.choice(['curv', 'imp']), x=rng.choice(M_X2), T=rng.choice(M_T[:3]), rm=False, dir=None)]
        for _ in range(rng.randint(1, 2)):
            x1 = rng.choice(M_X1); nm = rng.choice(['curv', 'growth', 'imp'])
            if nm == 'growth':
                blk.append(dict(name='growth', x=x1, T=blk[0]['T'], rm=True, dG=rng.choice([200.0, 600.0]), R=[rng.uniform(1e-9, 5e-9)], g=[rng.uniform(50.0, 400.0)]))
            else:
                blk.append(dict(name=nm, x=x1, T=blk[0]['T'], rm=True, dir=None))
        k = rng.randint(0, len(qs))
        qs = qs[:k] + blk + qs[k:]
    return qs


def _arr(a):
    return np.array(a, dtype=np.float64)


def call_public(th, q):
    """issue one public call; returns (value as nested python structure, args_modified)"""
    n = q['name']
    if n in ('df', 'interdiff', 'tracer'):
        x = _arr(q['x']); T = _arr(q['T']) if isinstance(q['T'], list) else float(q['T'])
        x0 = x.copy(); T0 = copy.deepcopy(T)
        if n == 'df':
            r = th.getDrivingForce(x, T, precPhase=q.get('pp'), removeCache=q['rm'])
        elif n == 'interdiff':
            r = th.getInterdiffusivity(x, T, removeCache=q['rm'], phase=q.get('ph'))
        else:
            r = th.getTracerDiffusivity(x, T, removeCache=q['rm'], phase=q.get('ph'))
        mod = not (np.array_equal(x, x0) and _same(T, T0))
        return r, mod
    if n == 'ic':
        g = _arr(q['g']) if isinstance(q['g'], list) else float(q['g'])
        T = _arr(q['T']) if isinstance(q['T'], list) else float(q['T'])
        g0 = copy.deepcopy(g); T0 = copy.deepcopy(T)
        if 'x' in q:
            x = _arr(q['x']); x0 = x.copy()
            r = th.getInterfacialComposition(x, T, g, precPhase=q.get('pp'))
            mod = not (np.array_equal(x, x0) and _same(g, g0) and _same(T, T0))
        else:
            r = th.getInterfacialComposition(T, g)
            mod = not (_same(g, g0) and _same(T, T0))
        return r, mod
    if n == 'curv':
        x = _arr(q['x']); x0 = x.copy()
        d = None if q['dir'] is None else _arr(q['dir']); d0 = copy.deepcopy(d)
        r = th.curvatureFactor(x, float(q['T']), precPhase=q.get('pp'), removeCache=q['rm'], searchDir=d)
        mod = not (np.array_equal(x, x0) and (d is None or np.array_equal(d, d0)))
        return (None if r is None else tuple(r)), mod
    if n == 'growth':
        x = _arr(q['x']); R = _arr(q['R']); g = _arr(q['g']); x0, R0, g0 = x.copy(), R.copy(), g.copy()
        r = th.getGrowthAndInterfacialComposition(x, float(q['T']), q['dG'], R, g, precPhase=q.get('pp'), removeCache=q['rm'])
        mod = not (np.array_equal(x, x0) and np.array_equal(R, R0) and np.array_equal(g, g0))
        return (None if r is None else tuple(r)), mod
    if n == 'imp':
        x = _arr(q['x']); x0 = x.copy()
        d = None if q.get('dir') is None else _arr(q['dir']); d0 = copy.deepcopy(d)
        r = th.impingementFactor(x, float(q['T']), precPhase=q.get('pp'), removeCache=q['rm'], searchDir=d)
        mod = not (np.array_equal(x, x0) and (d is None or np.array_equal(d, d0)))
        return (None if r is None else float(r)), mod
    if n == 'clear':
        th.clearCache(); return None, False
    if n == 'dens':
        th.setDFSamplingDensity(q['d']); return None, False
    if n == 'method':
        th.setDrivingForceMethod(q['m']); return None, False
    raise ValueError(n)


def flat(v):
    """flatten a query value to a list of floats (None -> nan marker list)"""
    if v is None:
        return [float('nan')]
    if isinstance(v, (tuple, list)):
        out = []
        for e in v:
            out += flat(e)
        return out
    a = np.asarray(v, dtype=np.float64) if not (isinstance(v, np.ndarray) and v.dtype == object) else np.array([np.nan if e is None else e for e in v.ravel()], dtype=np.float64)
    return a.ravel().tolist()


def vals_close(a, b, name):
    fa, fb = flat(a), flat(b)
    if len(fa) != len(fb):
        return False, (len(fa), len(fb))
    worst = None
    # entries of a diffusivity matrix are compared relative to the size of the matrix (small off-diagonal entries are
    # differences of large terms: their own relative error is the solver tolerance amplified by the cancellation)
    finite = [abs(t) for t in fa + fb if not math.isnan(t) and not math.isinf(t)]
    dscale = 0.1 * max(finite) if finite else 0.0
    for u, w in zip(fa, fb):
        if math.isnan(u) and math.isnan(w):
            continue
        if name == 'df':
            ok = close(u, w, RTOL, 100.0)
        elif name in ('ic',):
            ok = close(u, w, RTOL, 1e-3)
        elif name in ('curv', 'growth', 'imp'):
            ok = close(u, w, 10 * RTOL, 0.0) or (abs(u) <= 1.0 and abs(w) <= 1.0 and abs(u - w) <= 1e-8)
        else:
            ok = close(u, w, RTOL, dscale)
        if not ok:
            worst = (u, w)
            break
    return worst is None, worst


def k2_phase_sets(events):
    """phase sets found by the two-phase equilibria (cached local or global) in an event list, in order"""
    out = []
    for e in events:
        if e[0] == 'L' and len(e[1]) == 2:
            out.append(('cached' if e[2] else 'local', tuple(sorted(set(e[6])))))
        elif e[0] == 'G':
            out.append(('global', tuple(sorted(set(e[5])))))
    return out


def phase_set_mismatch(evW, evR):
    """the warmed object computed a two-phase equilibrium from cached composition sets and found other phases than
    the reference object's global equilibrium (or took a different number of equilibria)"""
    a, b = k2_phase_sets(evW), k2_phase_sets(evR)
    if not any(k == 'cached' for k, _ in a):
        return False
    return [p for _, p in a] != [p for _, p in b]


def tangent_cached_start_class(method, q, vW, vRef, mk, events):
    """True when every point of a 'tangent' driving-force call whose value differs from the reference was solved on the
    warmed object by the parallel-tangent local equilibrium started from the CACHED precipitate composition set (event
    'L' on [prec] without GE, start given) with no sampling before that solve — while the reference started from a fresh
    sample.  (Sampling after the cached-start solve is its fallback when that solve collapsed onto the matrix.)"""
    if method != 'tangent' or q['name'] != 'df' or vW is None or vRef is None:
        return False
    try:
        a = np.atleast_1d(np.asarray(vW[0], dtype=np.float64)); b = np.atleast_1d(np.asarray(vRef[0], dtype=np.float64))
    except (TypeError, ValueError):
        return False
    dfm = [m for m in mk if m[0] == 'df']
    if len(a) != len(b) or len(dfm) != len(a):
        return False
    bad = [i for i in range(len(a)) if not close(a[i], b[i], RTOL, 100.0)]
    if not bad:
        return False           # the driving forces agree: whatever differs is not this class
    for i in bad:
        ev = events[dfm[i][3]:dfm[i][4]]
        first = next((k for k, e in enumerate(ev) if e[0] == 'L' and len(e[1]) == 1 and e[3] is None and e[2]), None)
        # sampling BEFORE the cached-start solve means the solve did not start from the cache; sampling AFTER it is the
        # documented fallback when the cached-start solve collapsed onto the matrix (the same class: the cached start reached
        # another stationary point - the collapsed one - and the answer is the sampled value instead of the tangent value)
        if first is None or any(e[0] == 'S' for e in ev[:first]):
            return False
    return True


def df_eq_outcome(ev, ph0, prec):
    """outcome of the LAST two-phase equilibrium [matrix, prec] among the events of one single-point driving-force call
    ('approximate' / 'curvature' methods): None (no such equilibrium), 'unconverged', 'unstable' (solved, but the matrix or
    the precipitate is not among the stable phases), 'stable'"""
    out = None
    for e in ev:
        if e[0] == 'L' and len(e[1]) == 2:
            valid, phs = e[5], e[6]
        elif e[0] == 'G':
            valid, phs = e[4], e[5]
        else:
            continue
        out = 'unconverged' if not valid else ('stable' if (ph0 in phs and prec in phs) else 'unstable')
    return out


def reset_ref(ref):
    ref.clearCache()
    if hasattr(ref, '_curvature_outputs'):
        from kawin.thermo.MultiTherm import CurvatureOutput
        ref._curvature_outputs = {p: CurvatureOutput() for p in ref.phases[1:]}


def single_points(q):
    """the single-point calls an array call stands for (after broadcasting)"""
    n = q['name']
    if n in ('df', 'interdiff', 'tracer') and q['arr']:
        Ts = q['T'] if isinstance(q['T'], list) else [q['T']] * len(q['x'])
        return [dict(q, x=x, T=T, arr=False) for x, T in zip(q['x'], Ts)]
    if n == 'ic' and q['arr']:
        gs, Ts = q['g'], q['T']
        m = len(gs) if isinstance(gs, list) else len(Ts)
        gs = gs if isinstance(gs, list) else [gs] * m
        Ts = Ts if isinstance(Ts, list) else [Ts] * m
        return [dict(q, g=g, T=T, arr=False) for g, T in zip(gs, Ts)]
    return [q]


def situation(prev, q):
    if prev is None:
        return 'first'
    if prev.get('ph') != q.get('ph') or prev.get('pp') != q.get('pp'):
        return 'phase-switch'
    if prev.get('T') != q.get('T') and not isinstance(q.get('T'), list):
        return 'T-jump'
    if prev.get('x') == q.get('x') and prev.get('name') == q.get('name'):
        return 'repeat'
    return 'other-point'


def run_sequence(ctx, res, kind, method, qs, inst, use_model, seq_id, progress=None):
    """one warmed object W, one reference object R (cleared before every reference evaluation).
    `progress` (the replay case of the surrounding guard) always holds the queries issued so far."""
    progress = progress if progress is not None else {}
    from kawin.thermo.Thermodynamics import SampledPointsCache
    W = mk_therm(kind, method); R = ref_therm(kind, method)
    marks = []
    counts = wrap_singles(W, marks, inst)
    ph0 = W.phases[0]
    nph = len(W.phases)
    pidx = {name: i for i, name in enumerate(W.phases)}
    model_q, real_q, tab = [], [], []
    MISSING = object()
    CACHES = ['_diffusivity_cache', '_compset_cache_df', '_points_cache', '_compset_cache_curvature', '_curvature_outputs']

    def snapshot():
        return {c: dict(getattr(W, c)) for c in CACHES if hasattr(W, c)}
    qid = 0
    prev = None
    dens = 2000
    after_switch = False
    hist = []          # single-point driving-force queries since the last clear / method / density change: (q, matrix_only, unstable)
    for qi, q in enumerate(qs):
        desc = {'part': 'thermo', 'object': OBJ_NAME[kind], 'kind': kind, 'method': method,
                'sequence': qs[:qi + 1], 'failing_query': q}
        n = q['name']
        progress.update(sequence=qs[:qi + 1], failing_query=q, method=method)
        res.count('thermo:' + n)
        if q.get('ph') not in (None, ph0) or q.get('pp') not in (None, W.phases[1] if nph > 1 else None):
            res.count('thermo:non-default-phase-argument')
        snap0 = snapshot()
        marks.clear(); inst.log.clear(); inst.on = True
        sc0 = counts['sample_calls']
        try:
            vW, mod = call_public(W, q)
        finally:
            inst.on = False
        events = list(inst.log); mk = list(marks)
        if mod:
            res.violate('query-modifies-arguments:%s' % n, 'public query %s modified an array passed to it' % n, desc)
        if n in ('clear', 'method', 'dens'):
            hist = []
        if n == 'clear':
            model_q.append('X'); real_q.append(None); prev = None
            continue
        if n == 'method':
            method = q['m']
            W._rewrap_df()
            R.setDrivingForceMethod(method)
            model_q.append('W'); real_q.append(None)
            after_switch = True
            continue
        if n == 'dens':
            dens = q['d']
            if W._points_cache != {}:
                res.violate('sample-cache-survives-density-change', 'setDFSamplingDensity left sampled points in the cache', desc)
            model_q.append('N %d' % dens); real_q.append(None)
            R.setDFSamplingDensity(dens)
            continue
        sit = situation(prev, q)
        if after_switch and n == 'df':
            sit = 'after-method-switch'; after_switch = False
        # history two-phase point -> matrix-only point -> the SAME two-phase point, cache kept, on one object
        prev_unstable = False
        if n == 'df':
            if q['arr']:
                hist = []
            else:
                precq = q.get('pp') or (W.phases[1] if nph > 1 else None)
                outc = [df_eq_outcome(events[m_[3]:m_[4]], ph0, precq) for m_ in mk if m_[0] == 'df']
                unstable_now = any(o == 'unstable' for o in outc)
                try:
                    neg = vW is not None and vW[0] is not None and float(np.squeeze(vW[0])) <= 0
                except (TypeError, ValueError):
                    neg = False
                if (len(hist) >= 2 and sit != 'after-method-switch' and hist[-1][1] and not hist[-2][1]
                        and all(hist[-2][0].get(k_) == q.get(k_) for k_ in ('x', 'T', 'pp'))
                        and all(hist[-1][0].get(k_) == q.get(k_) for k_ in ('T', 'pp')) and not hist[-1][0].get('rm') and not hist[-2][0].get('rm')):
                    sit = 'two-phase-after-matrix-only'
                    prev_unstable = hist[-1][2]
                hist.append((q, unstable_now or neg, unstable_now))
        res.count('situation:' + sit)
        prev = q
        res.case(('thermo', kind, method, seq_id, qi, n), qi > 0)
        # ---------------- D. numerical purity (MONITORED): warmed vs cleared reference, array vs singles, repeat
        reset_ref(R)
        singles = single_points(q)
        inst.log.clear(); inst.on = True
        try:
            if len(singles) == 1:
                vR, _ = call_public(R, q)
                parts = None
            else:
                parts = []
                for sq in singles:
                    reset_ref(R)
                    parts.append(call_public(R, sq)[0])
                vR = None
        finally:
            inst.on = False
        eventsR = list(inst.log)
        if parts is None:
            ok, worst = vals_close(vW, vR, n)
        else:
            # assemble the array answer from the single answers: tuples of arrays stacked along axis 0
            if isinstance(parts[0], tuple):
                vR = tuple(np.array([np.asarray(p[j], dtype=np.float64) for p in parts]) for j in range(len(parts[0])))
            else:
                vR = np.array([np.asarray(p, dtype=np.float64) for p in parts])
            ok, worst = vals_close(vW, vR, n)
        fb_used = any(e[0] == 'FB' and e[1] for e in events)
        if fb_used:
            res.count('curvature-fallback-used')
        curv_none = any(m_[0] == 'curv' and m_[5] is None for m_ in mk)
        if not ok:
            if n in ('curv', 'growth', 'imp') and fb_used and q.get('rm'):
                key = 'curvature-removeCache-true-returns-earlier-output'
                what = ('%s(removeCache=True) at a condition without two-phase result (no searchDir) answered with the output of an EARLIER call that kept its '
                        'equilibrium (removeCache=False); a new/cleared object answers %s' % (n, 'None' if vR is None else 'with its own factors'))
            elif n == 'imp' and curv_none and vW is not None:
                key = 'impingement-none-falls-back-on-previous-beta'
                what = ('impingementFactor: the inner curvatureFactor call returned None (no cached equilibrium in play) and the query answered with the beta stored '
                        'by an earlier query (_curvature_outputs is not reset by removeCache / clearCache); a new object answers None')
            elif n in ('curv', 'growth', 'imp') and fb_used and vR is None:
                key = 'curvature-fallback-previous-output'
                what = ('curvatureFactor / getGrowthAndInterfacialComposition at a condition whose equilibrium gives no two-phase result (no searchDir): '
                        'a new/cleared object returns None, the warmed object answered from the output of its previous query')
            elif n in ('curv', 'growth', 'imp') and fb_used:
                key = 'curvature-fallback-poisoned-cache'
                res.count('class:poisoned-cache')
                what = ('curvatureFactor / getGrowthAndInterfacialComposition at a two-phase condition: a new/cleared object computes the factors, the warmed object — whose cached '
                        'composition-set list lost the precipitate during an earlier query without two-phase result — answered from the output of a previous query')
            elif tangent_cached_start_class(method, q, vW, vR, mk, events):
                key = 'tangent-cached-start-other-stationary-point'
                what = ('getDrivingForce (tangent) on an ordered precipitate: the parallel-tangent local equilibrium started from the cached precipitate '
                        'composition set converged to another stationary point than the one reached from a fresh sample')
                res.count('class:tangent-cached-start')
            elif phase_set_mismatch(events, eventsR) and not (sit == 'two-phase-after-matrix-only' and prev_unstable):
                key = 'cached-equilibrium-phase-set-differs-from-global'
                what = ('%s: the two-phase equilibrium computed from the cached composition sets found phases %s, the global equilibrium of a cleared object %s '
                        '(pycalphad local solver is start-dependent near the phase boundary)' % (n, k2_phase_sets(events), k2_phase_sets(eventsR)))
            else:
                key = 'purity:%s:%s%s:%s' % (n, method, ':array-vs-single' if parts is not None else '', sit)
                what = 'value of %s on the warmed object differs from the value on a cleared object (rtol %g)' % (n, RTOL)
            res.violate(key, what, desc, flat(vW)[:8], flat(vR)[:8])
        res.count('purity-compared')
        # ---------------- caches are keyed by phase: a query for phase p writes no entry of a phase q != p ...
        own_diff = (q.get('ph') or ph0) if n in ('interdiff', 'tracer') else None
        own_prec = (q.get('pp') or (W.phases[1] if nph > 1 else None)) if n in ('df', 'ic', 'curv', 'growth', 'imp') else None
        snap1 = snapshot()
        for c in snap0:
            own = own_diff if c == '_diffusivity_cache' else own_prec
            for key in set(snap0[c]) | set(snap1[c]):
                if key != own and snap0[c].get(key, MISSING) is not snap1[c].get(key, MISSING):
                    res.violate('cache-entry-of-other-phase-written:%s' % c,
                                '%s for phase %s changed the entry %s[%r], which belongs to another phase' % (n, own, c, key), desc, key, own)
        # ... and reads none: the composition sets handed to the solver belong to the phases of that very equilibrium
        for e in events:
            if e[0] == 'L' and e[2] and not set(e[7]) <= set(e[1]):
                res.violate('cached-sets-of-other-phase-reused:%s' % n,
                            '%s: local equilibrium on phases %s was started from cached composition sets of %s' % (n, list(e[1]), e[7]), desc, e[7], list(e[1]))
        # ---------------- C. trace: events per single point
        if n == 'ic' and kind in ('B', 'N'):
            continue      # stateless, own pycalphad workspace: nothing to replay
        for (mname, a, k, i0, i1, r) in mk:
            ev = events[i0:i1]
            # the phase this single-point call is about
            if mname == 'df':
                prec = a[2]
            elif mname in ('interdiff', 'tracer'):
                prec = None
                dph = (a[3] if len(a) > 3 else k.get('phase')) or ph0
            elif mname == 'ic':
                prec = a[3]
            else:
                prec = (a[2] if len(a) > 2 else k.get('precPhase')) or W.phases[1]
            toks = []; k2 = 0; step = 0; used = 0; sampled = 0
            seen1 = False; degen_idx = None
            for e in ev:
                if e[0] == 'solve':
                    if e[2]:
                        res.violate('stale-state-variables-at-solver:%s' % mname,
                                    'a cached composition set reached Solver.solve with state variables %s, current conditions %s' % (e[2][0], e[3]), desc, e[2], e[3])
                elif e[0] == 'L':
                    phs = e[1]
                    kindc = 2 if len(phs) > 1 else (1 if e[3] is None else 0)
                    if kindc == 0:
                        toks.append('0%s0p%d' % ('g' if e[2] else 'n', pidx.get(phs[0], 99)))
                        if seen1:
                            degen_idx = True
                        tab.append((0, qid, 0, e[5], True, True, False, False))
                    elif kindc == 1:
                        toks.append('1%s0p%d' % ('g' if e[2] else 'n', pidx.get(phs[0], 99)))
                        seen1 = True
                        tab.append([1, qid, 0, e[5], True, True, False, False])
                    else:
                        toks.append('2%s%dp%d' % ('g' if e[2] else 'n', 1 if e[3] == GOFF else 0, pidx.get(phs[1], 99)))
                        hasM = ph0 in e[6]; hasP = phs[1] in e[6]
                        gap = e[6].count(ph0) > 1 or e[6].count(phs[1]) > 1
                        if k2 == 0:
                            tab.append((2, qid, 0, e[5], hasM, hasP, gap, False))
                        k2 += 1
                elif e[0] == 'G':
                    gp = e[1][1] if len(e[1]) > 1 else e[1][0]
                    hasM = ph0 in e[5]; hasP = gp in e[5]
                    gap = e[5].count(ph0) > 1 or e[5].count(gp) > 1
                    if mname == 'ic':
                        toks.append('3n1p%d' % pidx.get(gp, 99))
                    else:
                        toks.append('2n%dp%d' % (1 if e[2] == GOFF else 0, pidx.get(gp, 99)))
                        if k2 > 0:
                            step += 1
                        tab.append((2, qid, step, e[4], hasM, hasP, gap, False))
                        k2 += 1
                elif e[0] == 'S':
                    used += 1
                    if e[3]:
                        sampled += 1
                    if e[2] != e[1] or (not e[3] and e[4] != e[1]):
                        res.violate('sample-cache-stale-tag', 'sampled points tagged %s used for a query at T=%s' % (e[4] if not e[3] else e[2], e[1]), desc)
            if degen_idx:
                for t in tab:
                    if isinstance(t, list) and t[1] == qid:
                        t[7] = True
            if mname == 'df':
                rnone = 1 if (r[0] is None) else 0
            elif mname == 'curv':
                rnone = 1 if r is None else 0
            else:
                rnone = 0

            def bits(d):
                return ''.join('T' if d.get(name) is not None else 'F' for name in W.phases)
            pcs = [W._points_cache.get(name, SampledPointsCache()) for name in W.phases]
            occ = '%s %s %s %s %s' % (bits(W._compset_cache_df), 'T' if W._matrix_cs is not None else 'F',
                                      ','.join('-' if pc.samples is None else str(int(f2b(pc.temperature))) for pc in pcs),
                                      bits(W._diffusivity_cache), bits(getattr(W, '_compset_cache_curvature', {})))
            # the occupancy is only observable after the LAST single point of a public call
            last = mk[-1][3] == i0
            real_q.append((' '.join(toks) + ' ; %d %d %d ; ' % (used, sampled, rnone)) + (occ if last else '?'))
            # model query line
            rm = None
            if mname == 'df':
                rm = a[3]
                mi = {'tangent': 0, 'sampling': 1, 'approximate': 2, 'curvature': 3}[method]
                model_q.append('F %d %d %s %d %s' % (mi, qid, f2b(a[1]), pidx[prec], 'T' if rm else 'F'))
            elif mname in ('interdiff', 'tracer'):
                rm = a[2]
                model_q.append('D %d %d %s %d %s' % (0 if mname == 'interdiff' else 1, qid, f2b(a[1]), pidx[dph], 'T' if rm else 'F'))
            elif mname == 'curv':
                rm = a[3] if len(a) > 3 else k.get('removeCache', False)
                sd = a[4] if len(a) > 4 else k.get('searchDir', None)
                model_q.append('K %d %s %d %s %s' % (qid, f2b(float(np.squeeze(a[1]))), pidx[prec], 'T' if rm else 'F', 'T' if sd is not None else 'F'))
            else:
                model_q.append('I %d %s %s %d' % (qid, f2b(a[1]), f2b(a[2]), pidx[prec]))
            # direct oracle: removeCache leaves the touched caches empty
            if rm and last:
                if mname in ('interdiff', 'tracer') and W._diffusivity_cache.get(dph) is not None:
                    res.violate('removeCache-leaves-cache:diffusivity', 'removeCache=True left composition sets in _diffusivity_cache[%s]' % dph, desc)
                if mname == 'df':
                    pc = W._points_cache.get(prec, SampledPointsCache())
                    if not rnone and (W._compset_cache_df.get(prec) is not None or W._matrix_cs is not None or pc.samples is not None):
                        res.violate('removeCache-leaves-cache:driving-force', 'removeCache=True left a driving-force cache of %s populated' % prec, desc,
                                    [W._compset_cache_df.get(prec) is not None, W._matrix_cs is not None, pc.samples is not None])
                if mname == 'curv' and W._compset_cache_curvature.get(prec) is not None:
                    res.violate('removeCache-leaves-cache:curvature', 'removeCache=True left _compset_cache_curvature[%s] populated' % prec, desc)
            # direct oracle: a removeCache=True curvature query never hands out the stored output object of an earlier call
            if mname == 'curv' and rm and any(e[0] == 'FB' and e[1] for e in ev):
                res.violate('curvature-removeCache-true-returns-earlier-output',
                            'curvatureFactor(removeCache=True) (called by %s) returned the CurvatureOutput object stored by an earlier call instead of None / new factors' % n,
                            desc, flat(tuple(r))[:6] if r is not None else None, 'None or newly computed factors')
            # direct oracle: the 'solves-but-unstable' and the 'unconverged' branch of _getCompositionSetsForDF leave no list behind
            if mname == 'df' and method in ('approximate', 'curvature') and last:
                oc = df_eq_outcome(ev, ph0, prec)
                res.count('df-eq-outcome:%s' % oc)
                if oc in ('unstable', 'unconverged') and W._compset_cache_df.get(prec) is not None:
                    res.violate('df-cache-kept-after-%s-equilibrium:%s' % (oc, method),
                                "getDrivingForce ('%s'): the two-phase equilibrium at this point was %s, yet _compset_cache_df[%s] still holds a composition-set list "
                                '(phases %s) that later queries start from' % (method, oc, prec, [cs.phase_record.phase_name for cs in W._compset_cache_df[prec]]),
                                desc, [cs.phase_record.phase_name for cs in W._compset_cache_df[prec]], None)
            qid += 1
    # a brand-new object must agree with the warmed one on the last point queries
    fresh_checked = 0
    for q in reversed(qs):
        if q['name'] in ('df', 'interdiff', 'tracer', 'ic') and fresh_checked < ctx.n(1, 2):
            N = mk_therm(kind, method, dens)
            inst.log.clear(); inst.on = True
            try:
                vN, _ = call_public(N, q)
            finally:
                inst.on = False
            evN = list(inst.log)
            marks.clear(); inst.log.clear(); inst.on = True
            try:
                vW, _ = call_public(W, q)
            finally:
                inst.on = False
            evW = list(inst.log); mkW = list(marks)
            ok, worst = vals_close(vW, vN, q['name'])
            if not ok:
                d1 = {'part': 'thermo', 'object': OBJ_NAME[kind], 'kind': kind, 'method': method, 'sequence': qs, 'failing_query': q}
                if tangent_cached_start_class(method, q, vW, vN, mkW, evW):
                    res.violate('tangent-cached-start-other-stationary-point',
                                'getDrivingForce (tangent): cached-start parallel tangent reached another stationary point than a brand-new object', d1, flat(vW)[:8], flat(vN)[:8])
                elif phase_set_mismatch(evW, evN):
                    res.violate('cached-equilibrium-phase-set-differs-from-global',
                                '%s: cached two-phase equilibrium found %s, the global equilibrium of a brand-new object %s' % (q['name'], k2_phase_sets(evW), k2_phase_sets(evN)),
                                d1, flat(vW)[:8], flat(vN)[:8])
                else:
                    res.violate('purity:%s:%s:new-object' % (q['name'], method), 'value on the warmed object differs from the value on a brand-new object',
                                d1, flat(vW)[:8], flat(vN)[:8])
            fresh_checked += 1
            res.count('purity-new-object-compared')
    # ---------------- model replay
    if use_model and ctx.driver_ok and model_q:
        tabl = [tuple(t) for t in tab]
        seen = set(); tab2 = []
        for t in tabl:
            if t[:3] in seen:
                continue
            seen.add(t[:3]); tab2.append(t)
        line = 'cs.run T 2000 %d %d %s %d %s' % (nph, len(tab2), ' '.join('%d %d %d %s %s %s %s %s' % (t[0], t[1], t[2], *['T' if b else 'F' for b in t[3:]]) for t in tab2),
                                              len(model_q), ' '.join(model_q))
        ans = vlib.run_driver(PROP, [line])[0]
        d0 = {'part': 'thermo', 'object': OBJ_NAME[kind], 'kind': kind, 'method': method, 'sequence': qs}
        if not ans.startswith('ok '):
            res.disagree('cs.run model error', d0, 'ok', ans[:200]); return
        mq = ans[3:].split(' / ')
        rq = [r for r in real_q]
        # model answers one entry per query incl. clear/dens; real_q has None for those
        if len(mq) != len(rq):
            res.disagree('cs.run number of queries', d0, len(rq), len(mq)); return
        for i, (m, r) in enumerate(zip(mq, rq)):
            if r is None:
                continue
            m = m.strip(); r = r.strip()
            if r.endswith('?'):
                m = m[:m.rindex(';') + 1] + ' ?'
            if ' '.join(m.split()) != ' '.join(r.split()):
                res.disagree('thermodynamics cache trace, query #%d (%s)' % (i, model_q[i]), d0, r, m)
                break
        res.traces += 1


def seq_guarded(ctx, res, kind, method, qs, inst, use_model, seq_id):
    """one query sequence inside its own guard: an exception raised by kawin/pycalphad during a query becomes a violation
    carrying the sequence up to that query; the instrumentation is switched off and the run goes on with the next sequence
    (nothing of an aborted sequence is sent to the model)"""
    case = {'part': 'thermo', 'object': OBJ_NAME[kind], 'kind': kind, 'method': method, 'sequence': [], 'failing_query': None}
    ok, _ = vlib.guarded(res, 'thermo-query-sequence', case, run_sequence, ctx, res, kind, method, qs, inst, use_model, seq_id, case)
    inst.on = False
    if not ok:
        res.count('thermo:sequence-aborted-by-exception')
        if res.violations and res.violations[-1]['key'].startswith('raises:') and case.get('failing_query'):
            v = res.violations[-1]
            v['key'] = 'raises:%s:%s' % (case['failing_query'].get('name'), v['key'].rsplit(':', 1)[-1])
            v['case'] = dict(case, raised_at=v['case'].get('raised_at'))
    return ok


def rng_switch(ctx):
    return ctx.rng.random() < 0.5


def corr_thermo(ctx, res, use_model=True):
    inst = Instr()
    try:
        plan = [('B', 'tangent', ctx.n(22, 60)), ('M', 'tangent', ctx.n(24, 60)), ('F', 'tangent', ctx.n(18, 60)), ('A', 'tangent', ctx.n(18, 60)),
                ('N', 'tangent', ctx.n(12, 40))]
        extra = [('B', 'approximate', ctx.n(6, 30)), ('M', 'approximate', ctx.n(6, 30)), ('B', 'sampling', ctx.n(4, 20)),
                 ('M', 'curvature', ctx.n(4, 20)), ('M', 'sampling', ctx.n(0, 20)), ('B', 'curvature', ctx.n(0, 20)),
                 ('A', 'approximate', ctx.n(6, 30)), ('A', 'sampling', ctx.n(4, 20))]
        reps = ctx.n(1, 8)
        sid = 0
        # scripted sequences: every run exercises the classes behind the recorded defects / finding
        x2, x1, T0 = M_X2[0], M_X1[1], M_T[0]
        scripted_M = [dict(name='curv', x=x2, T=T0, rm=False, dir=None), dict(name='curv', x=x2, T=T0, rm=False, dir=None),
                      dict(name='curv', x=x1, T=T0, rm=False, dir=None), dict(name='curv', x=M_X1[0], T=T0, rm=False, dir=[0.18, 0.06]),
                      dict(name='growth', x=x2, T=T0, rm=False, dG=600.0, R=[1e-9, 2e-9], g=[300.0, 150.0]),
                      dict(name='df', x=x2, T=T0, rm=False, arr=False), dict(name='df', x=x2, T=M_T[3], rm=False, arr=False),
                      dict(name='df', x=x2, T=T0, rm=True, arr=False), dict(name='df', x=[x2, M_X2[1]], T=[T0, M_T[2]], rm=False, arr=True),
                      dict(name='ic', x=x2, T=T0, g=[0.0, 500.0], arr=True), dict(name='curv', x=x2, T=T0, rm=True, dir=None),
                      dict(name='curv', x=x1, T=T0, rm=False, dir=None), dict(name='interdiff', x=x2, T=T0, rm=False, arr=False),
                      dict(name='tracer', x=x2, T=M_T[3], rm=True, arr=False), dict(name='interdiff', x=[x2, M_X2[2]], T=T0, rm=False, arr=True)]
        scripted_B = [dict(name='ic', T=B_T[0], g=[0.0, 100.0, 500.0], arr=True), dict(name='ic', T=B_T[0], g=[0.0, 100.0, 500.0], arr=True),
                      dict(name='df', x=B_X[0], T=B_T[0], rm=False, arr=False), dict(name='df', x=B_X[0], T=B_T[3], rm=False, arr=False),
                      dict(name='df', x=[B_X[0], B_X[1]], T=[B_T[0], B_T[2]], rm=False, arr=True), dict(name='df', x=B_X[0], T=B_T[0], rm=True, arr=False),
                      dict(name='interdiff', x=B_X[0], T=B_T[0], rm=False, arr=False), dict(name='tracer', x=B_X[2], T=B_T[1], rm=False, arr=False),
                      dict(name='interdiff', x=[B_X[0], B_X[3]], T=B_T[0], rm=True, arr=True), dict(name='ic', T=[B_T[0], B_T[1]], g=[0.0, 250.0], arr=True),
                      dict(name='ic', T=[B_T[1], B_T[0], B_T[1]], g=5000.0, arr=True), dict(name='ic', T=[B_T[1], B_T[1], B_T[1]], g=[0.0, 100.0, 5000.0], arr=True),
                      dict(name='ic', T=[B_T[0], B_T[1], B_T[1], B_T[0]], g=[0.0, 100.0, 100.0, 500.0], arr=True),
                      dict(name='df', x=[B_X[0], B_X[0], B_X[0]], T=[B_T[1], B_T[0], B_T[1]], rm=False, arr=True),
                      dict(name='interdiff', x=[B_X[0], B_X[1], B_X[0]], T=[B_T[0], B_T[3], B_T[0]], rm=False, arr=True),
                      dict(name='tracer', x=[B_X[0], B_X[1], B_X[0]], T=[B_T[0], B_T[0], B_T[3]], rm=False, arr=True)]
        scripted_switch = [dict(name='df', x=x2, T=T0, rm=False, arr=False), dict(name='method', m='approximate'),
                           dict(name='df', x=x2, T=T0, rm=False, arr=False), dict(name='df', x=x2, T=T0, rm=False, arr=False),
                           dict(name='method', m='tangent'), dict(name='df', x=x2, T=T0, rm=False, arr=False),
                           dict(name='method', m='curvature'), dict(name='df', x=M_X2[1], T=T0, rm=False, arr=False)]
        scripted_A = [dict(name='df', x=M_X2[3], T=M_T[2], rm=False, arr=False), dict(name='df', x=M_X2[1], T=M_T[4], rm=False, arr=False),
                      dict(name='df', x=x2, T=T0, rm=False, arr=False), dict(name='df', x=x2, T=T0, rm=False, arr=False)]
        seq_guarded(ctx, res, 'M', 'approximate', scripted_A, inst, use_model, 's3'); sid += 1
        # 'sampling' method: the sample cache is consulted by every query — temperature jumps without removeCache
        scripted_SB = [dict(name='df', x=B_X[0], T=B_T[0], rm=False, arr=False), dict(name='df', x=B_X[0], T=B_T[3], rm=False, arr=False),
                       dict(name='df', x=B_X[1], T=B_T[3], rm=False, arr=False), dict(name='df', x=[B_X[0], B_X[2]], T=[B_T[0], B_T[1]], rm=False, arr=True),
                       dict(name='dens', d=1000), dict(name='df', x=B_X[0], T=B_T[1], rm=False, arr=False)]
        scripted_SM = [dict(name='df', x=x2, T=T0, rm=False, arr=False), dict(name='df', x=x2, T=M_T[3], rm=False, arr=False),
                       dict(name='df', x=M_X2[1], T=M_T[3], rm=False, arr=False)]
        seq_guarded(ctx, res, 'B', 'sampling', scripted_SB, inst, use_model, 's4'); sid += 1
        # ordered precipitate (FCC_L12): undersaturated -> supersaturated -> undersaturated -> supersaturated on ONE object, every method
        xu, xs1, xs2 = [0.05, 0.05], M_X2[1], M_X2[3]
        for mth in ['tangent', 'approximate', 'sampling', 'curvature']:
            us = [dict(name='df', x=xu, T=M_T[1], rm=False, arr=False), dict(name='df', x=xs1, T=M_T[1], rm=False, arr=False),
                  dict(name='df', x=xs2, T=M_T[1], rm=False, arr=False), dict(name='df', x=[0.01, 0.01], T=M_T[1], rm=False, arr=False),
                  dict(name='df', x=xs1, T=M_T[1], rm=False, arr=False), dict(name='df', x=[xu, xs1, xs2, xu], T=[M_T[1], M_T[0], M_T[1], M_T[1]], rm=False, arr=True)]
            seq_guarded(ctx, res, 'M', mth, us, inst, use_model, 'u' + mth); sid += 1
            un = [dict(name='df', x=0.05, T=N_T[0], rm=False, arr=False), dict(name='df', x=0.16, T=N_T[0], rm=False, arr=False),
                  dict(name='df', x=0.12, T=N_T[0], rm=False, arr=False), dict(name='df', x=0.16, T=N_T[0], rm=False, arr=False),
                  dict(name='df', x=0.18, T=N_T[0], rm=False, arr=False), dict(name='df', x=0.05, T=N_T[0], rm=False, arr=False),
                  dict(name='df', x=0.18, T=N_T[0], rm=False, arr=False)]
            seq_guarded(ctx, res, 'N', mth, un, inst, use_model, 'n' + mth); sid += 1
        un2 = [dict(name='df', x=0.12, T=N_T[0], rm=False, arr=False), dict(name='df', x=0.16, T=N_T[0], rm=False, arr=False),
               dict(name='df', x=0.18, T=N_T[0], rm=False, arr=False), dict(name='df', x=0.16, T=N_T[0], rm=True, arr=False),
               dict(name='df', x=0.16, T=N_T[0], rm=False, arr=False)]
        seq_guarded(ctx, res, 'N', 'tangent', un2, inst, use_model, 'n2'); sid += 1
        seq_guarded(ctx, res, 'M', 'sampling', scripted_SM, inst, use_model, 's5'); sid += 1
        seq_guarded(ctx, res, 'M', 'tangent', scripted_switch, inst, use_model, 's0'); sid += 1
        seq_guarded(ctx, res, 'M', 'tangent', scripted_M, inst, use_model, 's1'); sid += 1
        # multi-phase objects, non-default phase= / precPhase= arguments interleaved
        fx, fT = F_X[0], F_T[0]
        scripted_F = [dict(name='interdiff', x=fx, T=fT, rm=False, arr=False, ph='BCC_A2'), dict(name='interdiff', x=fx, T=fT, rm=True, arr=False, ph=None),
                      dict(name='interdiff', x=fx, T=fT, rm=False, arr=False, ph='FCC_A1'), dict(name='tracer', x=fx, T=F_T[1], rm=False, arr=False, ph='BCC_A2'),
                      dict(name='tracer', x=fx, T=fT, rm=False, arr=False, ph=None), dict(name='interdiff', x=F_X[1], T=fT, rm=True, arr=False, ph='BCC_A2'),
                      dict(name='interdiff', x=[fx, F_X[1]], T=[fT, F_T[1]], rm=False, arr=True, ph='BCC_A2'), dict(name='tracer', x=fx, T=fT, rm=True, arr=False, ph='FCC_A1'),
                      dict(name='df', x=fx, T=fT, rm=False, arr=False, pp=None), dict(name='interdiff', x=fx, T=fT, rm=False, arr=False, ph=None)]
        ax, aT = A_X[0], A_T[0]
        scripted_A5 = [dict(name='df', x=ax, T=aT, rm=False, arr=False, pp='MG5SI6_B_DP'), dict(name='df', x=ax, T=aT, rm=False, arr=False, pp=None),
                       dict(name='df', x=ax, T=A_T[1], rm=False, arr=False, pp='U1_PHASE'), dict(name='df', x=ax, T=aT, rm=True, arr=False, pp='MG5SI6_B_DP'),
                       dict(name='curv', x=ax, T=aT, rm=False, dir=None, pp='B_PRIME_L'), dict(name='curv', x=ax, T=aT, rm=False, dir=None, pp=None),
                       dict(name='curv', x=ax, T=A_T[1], rm=True, dir=None, pp='B_PRIME_L'), dict(name='ic', x=ax, T=aT, g=[0.0, 500.0], arr=True, pp='U2_PHASE'),
                       dict(name='growth', x=ax, T=aT, rm=False, dG=6000.0, R=[1e-9, 2e-9], g=[300.0, 150.0], pp='MGSI_B_P'),
                       dict(name='df', x=[ax, A_X[1]], T=[aT, A_T[1]], rm=False, arr=True, pp='U2_PHASE'), dict(name='df', x=ax, T=aT, rm=False, arr=False, pp='U1_PHASE')]
        # driving-force HISTORIES: two-phase point -> matrix-only point -> the SAME two-phase point, cache kept, one object, every
        # method (situation 'two-phase-after-matrix-only'); scripted points + points drawn from the pools
        import random
        rng = random.Random('C09-histories-%d' % ctx.seed)      # own stream: the older random plans keep theirs
        for mth in ['approximate', 'curvature', 'sampling', 'tangent']:
            for kind_, P_, U_, T_ in [('M', M_X2[1], [0.01, 0.01], M_T[1]), ('B', B_X[0], 2e-5, B_T[1]),
                                      ('M', rng.choice(M_X2[:4]), rng.choice(XUNDER['M']), rng.choice(M_T[:3])),
                                      ('B', rng.choice(B_X[:4]), rng.choice(XUNDER['B']), rng.choice(B_T[:3]))]:
                if kind_ == 'B' and mth in ('sampling', 'tangent') and not ctx.n(0, 1):
                    continue
                U2_ = rng.choice(XUNDER[kind_])
                hq = [dict(name='df', x=P_, T=T_, rm=False, arr=False), dict(name='df', x=U_, T=T_, rm=False, arr=False),
                      dict(name='df', x=P_, T=T_, rm=False, arr=False), dict(name='df', x=U2_, T=T_, rm=False, arr=False),
                      dict(name='df', x=P_, T=T_, rm=False, arr=False)]
                seq_guarded(ctx, res, kind_, mth, hq, inst, use_model, 'h' + mth + kind_); sid += 1
        # MIXED removeCache usage on one multicomponent object: a query that keeps its equilibrium, then removeCache=True queries
        # at single-phase compositions without searchDir (curvature factors, growth, impingement)
        g1 = dict(dG=600.0, R=[1e-9, 2e-9], g=[300.0, 150.0])
        mixed_M = [dict(name='curv', x=x2, T=T0, rm=False, dir=None), dict(name='curv', x=x1, T=T0, rm=True, dir=None),
                   dict(name='growth', x=x2, T=T0, rm=False, **g1), dict(name='growth', x=x1, T=T0, rm=True, **g1),
                   dict(name='imp', x=x2, T=T0, rm=False, dir=None), dict(name='imp', x=M_X1[0], T=T0, rm=True, dir=None),
                   dict(name='curv', x=M_X2[1], T=M_T[1], rm=False, dir=None), dict(name='growth', x=M_X1[2], T=M_T[1], rm=True, **g1),
                   dict(name='curv', x=M_X2[1], T=M_T[1], rm=False, dir=None), dict(name='curv', x=x1, T=M_T[1], rm=True, dir=None),
                   dict(name='curv', x=M_X2[1], T=M_T[1], rm=True, dir=None)]
        seq_guarded(ctx, res, 'M', 'tangent', mixed_M, inst, use_model, 'mx1'); sid += 1
        mixed_A = [dict(name='curv', x=A_X[0], T=A_T[0], rm=False, dir=None, pp='B_PRIME_L'), dict(name='curv', x=[2e-5, 2e-5], T=A_T[0], rm=True, dir=None, pp='B_PRIME_L'),
                   dict(name='imp', x=A_X[0], T=A_T[0], rm=False, dir=None, pp=None), dict(name='curv', x=[2e-5, 2e-5], T=A_T[0], rm=True, dir=None, pp=None)]
        seq_guarded(ctx, res, 'A', 'tangent', mixed_A, inst, use_model, 'mx2'); sid += 1
        seq_guarded(ctx, res, 'F', 'tangent', scripted_F, inst, use_model, 's6'); sid += 1
        seq_guarded(ctx, res, 'A', 'tangent', scripted_A5, inst, use_model, 's7'); sid += 1
        seq_guarded(ctx, res, 'B', 'tangent', scripted_B, inst, use_model, 's2'); sid += 1
        for rep in range(reps):
            for kind, method, n in plan + extra:
                if n == 0:
                    continue
                qs = gen_queries(ctx.rng, kind, n)
                if method == 'tangent' and kind in ('B', 'M') and rng_switch(ctx):
                    k = ctx.rng.randint(1, max(1, len(qs) - 1))
                    m2 = ctx.rng.choice(['approximate', 'sampling', 'curvature'])
                    qs = qs[:k] + [dict(name='method', m=m2), dict(name='df', x=POOLS[kind][0][0], T=POOLS[kind][1][0], rm=False, arr=False),
                                   dict(name='method', m='tangent')] + qs[k:]
                if method == 'tangent' and kind == 'M':
                    qs = insert_mixed(rng, qs)
                if method != 'tangent':
                    qs = [q for q in qs if q['name'] in ('df', 'clear', 'dens', 'interdiff')] or [dict(name='df', x=POOLS[kind][0][0], T=POOLS[kind][1][0], rm=False, arr=False)]
                seq_guarded(ctx, res, kind, method, qs, inst, use_model, sid)
                sid += 1
    finally:
        inst.close()


# =============================================================================================== E. diffusion node loops
_DIFF = {}
DN_SYS = {
    'single-phase:NiCr': dict(model='single-phase', db='NICRAL_TDB', els=['NI', 'CR'], phases=['FCC_A1'], tphases=['FCC_A1', 'BCC_A2'],
                              base=[[0.2], [0.05], [0.31]], T=[1073.0, 1273.15, 1473.15]),
    'single-phase:NiCrAl': dict(model='single-phase', db='NICRAL_TDB', els=['NI', 'CR', 'AL'], phases=['FCC_A1'], tphases=['FCC_A1', 'BCC_A2'],
                                base=[[0.1, 0.05], [0.077, 0.054], [0.2, 0.02]], T=[1473.15, 1373.15]),
    'homogenization:FeCrNi': dict(model='homogenization', db='FECRNI_DB', els=['FE', 'CR', 'NI'], phases=['FCC_A1', 'BCC_A2'], tphases=['FCC_A1', 'BCC_A2'],
                                  base=[[0.3, 0.1], [0.25, 0.05], [0.4, 0.2]], T=[1373.15, 1273.15]),
}


def dn_therm(sysname, which):
    """thermodynamics objects of the diffusion part: 'model' (handed to the diffusion model) and 'ref' (node-by-node reference)"""
    key = (vlib.REPO, sysname, which)
    if key not in _DIFF:
        import kawin.tests.datasets as DS
        from kawin.thermo import GeneralThermodynamics
        S = DN_SYS[sysname]
        _DIFF[key] = GeneralThermodynamics(getattr(DS, S['db']), S['els'], S['tphases'])
    return _DIFF[key]


def gen_dn_case(rng, sysname, N=None, kind=None, rel=None, cache=None, sens=None):
    """a SHALLOW profile: neighbouring nodes differ by 1e-12 .. 1e-4 relative (long gentle ramps, plateaus with tiny noise,
    plateaus joined by a gentle ramp, exactly flat stretches), cache off or precision 4..10"""
    S = DN_SYS[sysname]
    hom = S['model'] == 'homogenization'
    N = N or (rng.randint(5, 9) if hom else rng.randint(12, 60))
    kind = kind or rng.choice(['ramp', 'ramp', 'ramp', 'noise', 'plateau-ramp-plateau', 'flat-then-ramp'])
    rel = rel or 10.0 ** rng.uniform(-12, -4)
    if rng.random() < 0.5:
        rel = 10.0 ** rng.uniform(-7.5, -5.3)        # below np.allclose / above the resolution of the finer keys
    base = rng.choice(S['base'])
    T = rng.choice(S['T'])
    x = []
    for b in base:
        sgn = rng.choice([1.0, 1.0, -1.0]); f = rng.uniform(0.3, 1.0)
        if kind == 'ramp':
            row = [b * (1 + sgn * f * rel * i) for i in range(N)]
        elif kind == 'noise':
            row = [b * (1 + rel * rng.uniform(-1, 1)) for i in range(N)]
        elif kind == 'plateau-ramp-plateau':
            a, c = N // 3, 2 * N // 3
            row = [b * (1 + sgn * f * rel * min(max(i - a, 0), c - a)) for i in range(N)]
        else:
            a = N // 2
            row = [b * (1 + sgn * f * rel * max(i - a, 0)) for i in range(N)]
        x.append(row)
    cache = (rng.random() < 0.55) if cache is None else cache
    sens = sens if sens is not None else (rng.randint(4, 10) if cache else rng.choice([4, 4, 8]))
    return dict(part='diffnodes', system=sysname, N=N, kind=kind, rel=rel, x=x, T=T, cache=bool(cache), sens=int(sens))


def run_dn_case(c):
    """runs the real model on the profile; returns (what the model used, node-by-node reference, bookkeeping)"""
    from kawin.diffusion import SinglePhaseModel, HomogenizationModel
    import kawin.diffusion.Homogenization as HM
    from kawin.diffusion.HomogenizationParameters import computeHomogenizationFunction
    S = DN_SYS[c['system']]
    N = c['N']
    th = dn_therm(c['system'], 'model'); ref = dn_therm(c['system'], 'ref')
    th.clearCache(); ref.clearCache()
    hom = S['model'] == 'homogenization'
    M = (HomogenizationModel if hom else SinglePhaseModel)([-1e-3, 1e-3], N, S['els'], S['phases'])
    for e, row in zip(S['els'][1:], c['x']):
        M.setCompositionLinear(row[0], row[-1], e)
    M.setTemperature(c['T']); M.setThermodynamics(th)
    M.setHashSensitivity(c['sens'])
    M.useCache(c['cache'])
    M.setup()
    M.x = np.array(c['x'], dtype=np.float64)
    M.hashTable.clearCache()
    x0 = M.x.copy()
    Tn = np.array(M.temperatureParameters(M.z, 0), dtype=np.float64)
    # expected source node of every node: itself with the cache off, the FIRST node with the same key with the cache on
    keys = [exact_key(c['sens'], M.x[:, i], Tn[i]) for i in range(N)]
    src = []
    for i in range(N):
        src.append(i if not c['cache'] else next(j for j in range(i + 1) if keys[j] == keys[i]))
    evaluated = []      # compositions at which the model asked the thermodynamics
    out = {}
    if not hom:
        orig = th.getInterdiffusivity

        def spy(x, T, *a, **k):
            evaluated.append(np.array(x, dtype=np.float64).ravel().copy())
            return orig(x, T, *a, **k)
        th.getInterdiffusivity = spy
        try:
            fl = np.array(M._getFluxes(0, [M.x]), dtype=np.float64)
        finally:
            del th.getInterdiffusivity
        out['fluxes'] = fl
        D = {}
        for j in sorted(set(src)):
            ref.clearCache()
            D[j] = np.array(ref.getInterdiffusivity(x0[:, j] if len(S['els']) > 2 else x0[0, j], Tn[j], removeCache=True, phase=S['phases'][0]), dtype=np.float64)
        d = np.array([D[j] for j in src])
        dmid = 0.5 * (d[1:] + d[:-1]); dxdz = (x0[:, 1:] - x0[:, :-1]) / M.dz
        if len(S['els']) == 2:
            exp = (-dmid * dxdz[0])[None, :]; scale = np.abs(exp)
        else:
            exp = -np.einsum('kij,jk->ik', dmid, dxdz); scale = np.einsum('kij,jk->ik', np.abs(dmid), np.abs(dxdz))
        out['exp'] = exp; out['scale'] = scale; out['got'] = fl[:, 1:-1]
    else:
        rec = []
        orig_f = HM.computeHomogenizationFunction
        orig_eq = th.getEq

        def spy_eq(x, T, *a, **k):
            evaluated.append(np.array(x, dtype=np.float64).ravel().copy())
            return orig_eq(x, T, *a, **k)

        def spy_f(*a, **k):
            r = orig_f(*a, **k); rec.append(r); return r
        HM.computeHomogenizationFunction = spy_f; th.getEq = spy_eq
        try:
            M._getFluxes(0, [M.x])
        finally:
            HM.computeHomogenizationFunction = orig_f; del th.getEq
        am, mu = rec[0]
        R = {}
        for j in sorted(set(src)):
            a1, m1 = computeHomogenizationFunction(ref, x0.T[j:j + 1], Tn[j:j + 1], M.homogenizationParameters, None)
            R[j] = np.concatenate([np.ravel(a1), np.ravel(m1)])
        out['got'] = np.array([np.concatenate([np.ravel(am[i]), np.ravel(mu[i])]) for i in range(N)]).T
        out['exp'] = np.array([R[j] for j in src]).T
        out['scale'] = np.abs(out['exp'])
    out['modified'] = not np.array_equal(M.x, x0)
    out['src'] = src; out['keys'] = keys; out['x0'] = x0; out['Tn'] = Tn
    # nodes at which the thermodynamics was evaluated (calls are matched to nodes in order)
    ev_nodes = []; pos = 0
    for xe in evaluated:
        while pos < N and not np.array_equal(np.ravel(x0[:, pos]), xe[:x0.shape[0]]):
            pos += 1
        if pos < N:
            ev_nodes.append(pos); pos += 1
    out['evaluated'] = ev_nodes; out['ncalls'] = len(evaluated)
    return out


def check_dn_case(res, c, out):
    """direct oracle: the value used at node i is the thermodynamics at node i's OWN composition (cache off / own key)"""
    S = DN_SYS[c['system']]
    hom = S['model'] == 'homogenization'
    got, exp, scale = out['got'], out['exp'], out['scale']
    src = out['src']
    if out['modified']:
        res.violate('diffusion-fluxes-modify-profile', '_getFluxes changed the composition profile handed to it', c)
    bad = np.argwhere(~(np.abs(got - exp) <= 1e-9 * scale + 1e-300))
    if len(bad):
        k = int(bad[0][1])
        nodes = [k] if hom else [k, k + 1]
        own = all(src[i] == i for i in nodes)
        cls = 'cache-off' if not c['cache'] else ('distinct-keys' if own else 'shared-key')
        head = 'diffusion-node-value-from-neighbour' if cls != 'shared-key' else 'diffusion-node-value-differs'
        rel = float(np.max(np.abs(got - exp)[:, k] / np.maximum(scale[:, k], 1e-300)))
        res.violate('%s:%s:%s' % (head, S['model'], cls),
                    ('%s on %s: the %s used at %s %d is not the thermodynamics evaluated at the node\'s own composition (relative deviation %.3g, '
                     '%d node(s)/face(s) off); cache %s, precision %d, neighbouring nodes differ by %.3g relative; thermodynamics was evaluated at %d of %d nodes')
                    % (S['model'], c['system'], 'mobility / chemical potential' if hom else 'interdiffusivity (recovered from the flux)', 'node' if hom else 'face',
                       k, rel, len(set(int(b[1]) for b in bad)), 'on' if c['cache'] else 'OFF', c['sens'], c['rel'], len(out['evaluated']), c['N']),
                    dict(c, failing_index=k), np.ravel(got[:, k]).tolist()[:6], np.ravel(exp[:, k]).tolist()[:6])
    return not len(bad)


def corr_diffnodes(ctx, res, use_model=True):
    import random
    rng = random.Random('C09-diffnodes-%d' % ctx.seed)          # own stream: the older random plans keep theirs
    cases = [gen_dn_case(rng, 'single-phase:NiCr', N=ctx.n(40, 100), kind='ramp', rel=5e-6, cache=False, sens=4),
             gen_dn_case(rng, 'single-phase:NiCr', N=ctx.n(40, 100), kind='ramp', rel=5e-6, cache=True, sens=8),
             gen_dn_case(rng, 'single-phase:NiCrAl', N=ctx.n(20, 60), kind='ramp', rel=2e-6, cache=False, sens=4),
             gen_dn_case(rng, 'homogenization:FeCrNi', N=ctx.n(6, 20), kind='ramp', rel=3e-6, cache=False, sens=4)]
    for sysname, n in [('single-phase:NiCr', ctx.n(4, 30)), ('single-phase:NiCrAl', ctx.n(3, 20)), ('homogenization:FeCrNi', ctx.n(2, 12))]:
        cases += [gen_dn_case(rng, sysname) for _ in range(n)]
    lines, keep = [], []
    for k, c in enumerate(cases):
        ok, out = vlib.guarded(res, 'diffusion-node-loop', c, run_dn_case, c)
        if not ok:
            res.count('diffnodes:raised'); continue
        good = check_dn_case(res, c, out)
        own = sum(1 for i, j in enumerate(out['src']) if i == j)
        res.case(('diffnodes', k, c['system'], c['N'], c['cache'], c['sens']), own > 1)
        res.count('diffnodes:' + c['system']); res.count('diffnodes:cache-' + ('on' if c['cache'] else 'off'))
        res.count('diffnodes:nodes', c['N']); res.count('diffnodes:nodes-with-own-key', own)
        res.count('diffnodes:kind:' + c['kind'])
        if k == 0:
            res.sample({'part': 'diffnodes', 'system': c['system'], 'N': c['N'], 'rel': c['rel'], 'cache': c['cache'], 'sens': c['sens'], 'ok': good})
        toks = ['nodes.run', 'T' if c['cache'] else 'F', str(c['sens']), str(c['N'])]
        for i in range(c['N']):
            toks += [enc_list([float(v) for v in out['x0'][:, i]]), f2b(float(out['Tn'][i]))]
        lines.append(' '.join(toks)); keep.append((c, out))
    if use_model and ctx.driver_ok and lines:
        ans = vlib.run_driver(PROP, lines)
        for (c, out), a in zip(keep, ans):
            if not a.startswith('ok '):
                res.disagree('nodes.run model error', c, 'ok', a[:200]); continue
            mt = a[3:].split()
            impl = ['M' if i in set(out['evaluated']) else 'H%d' % out['src'][i] for i in range(c['N'])]
            if mt != impl or out['ncalls'] != len(out['evaluated']):
                j = next((i for i, (u, w) in enumerate(zip(impl, mt)) if u != w), None)
                res.disagree('diffusion node loop: nodes at which the thermodynamics is evaluated / whose value is reused (first difference at node %s)' % j,
                             c, impl, mt)
            res.traces += 1


def corr(ctx, oracle_only=False):
    vlib.use_repo()
    warnings.simplefilter('ignore')
    res = Result()
    res.rule = ('A: random HashTable op sequences (3-40 ops; sensitivities 0..12/15; 1-4 components; repeats below/at the key resolution; '
                'values beyond 2^31; enable/disable/clear/setSens) — non-trivial = at least one hit; '
                'B: random scalar/1-d/2-d arguments incl. empty and mismatched lengths for the three helpers and the two hand-rolled broadcasts; '
                'C/D: random query sequences on the shipped Al-Zr and Ni-Cr-Al objects — non-trivial = warmed caches in use; distinct = (part, index, shape); '
                'E: shallow composition profiles (relative node-to-node step 1e-12..1e-4, half of them 3e-8..5e-6) on Ni-Cr / Ni-Cr-Al single-phase and Fe-Cr-Ni '
                'homogenization models, cache off or precision 4..10 — non-trivial = more than one node with its own key')
    res.monitored = list(MONITORED)
    # every part runs inside an outer guard as well (harness errors are collected, re-raised at the end only if the run
    # found no violation); the cases / sequences inside each part have their own guards
    vlib.guarded(res, 'hash-part', {'part': 'hash'}, corr_hash, ctx, res, ctx.n(500, 6000), not oracle_only)
    vlib.guarded(res, 'broadcast-part', {'part': 'broadcast'}, corr_broadcast, ctx, res, ctx.n(800, 8000), not oracle_only)
    vlib.guarded(res, 'diffnodes-part', {'part': 'diffnodes'}, corr_diffnodes, ctx, res, not oracle_only)
    vlib.guarded(res, 'thermo-part', {'part': 'thermo'}, corr_thermo, ctx, res, not oracle_only)
    vlib.finish_guard(res)
    return res


def search(ctx, broken):
    return corr(ctx, oracle_only=True)


def replay(ctx, entry):
    """re-run the direct oracle on the recorded case"""
    vlib.use_repo()
    warnings.simplefilter('ignore')
    c = entry['violation']['case']
    key = entry['violation']['key']
    if 'part' not in c and isinstance(c.get('case'), dict):
        c = c['case']                      # a `raises:` violation recorded by vlib.guarded wraps the case
    if c.get('part') == 'hash' and 'ops' in c:
        ops = [tuple(o) for o in c['ops']]
        r = Result()
        ok, out = vlib.guarded(r, 'HashTable-op-sequence', c, run_hash_real, ops)
        viol = list(out[4]) if ok else [(v['key'], v['what']) for v in r.violations]
        for v in viol:
            print('  ', v)
        vlib.finish_guard(r)
        return not viol
    if c.get('part') == 'thermo':
        return replay_thermo(ctx, c, key)
    if c.get('part') == 'diffnodes' and 'x' in c:
        r = Result()
        c2 = {k_: v_ for k_, v_ in c.items() if k_ != 'failing_index'}
        ok, out = vlib.guarded(r, 'diffusion-node-loop', c2, run_dn_case, c2)
        if ok:
            check_dn_case(r, c2, out)
        for v in r.violations[:3]:
            print('  ', v['key'], v['what'][:300])
        return not r.violations
    # broadcast cases are regenerated from the recorded seed/tier (same generator order as corr: hash first)
    ctx = vlib.Ctx(PROP, entry.get('tier', 'quick'), int(entry.get('seed', 0)))
    ctx.driver_ok = False
    res = Result()
    corr_hash(ctx, Result(), ctx.n(500, 6000), use_model=False)
    corr_broadcast(ctx, res, ctx.n(800, 8000), use_model=False)
    hit = [v for v in res.violations if v['key'] == key]
    for v in hit[:3]:
        print('  ', v['key'], v['what'])
    return not hit


def replay_thermo(ctx, c, key):
    """replays the recorded public-call sequence on new objects; oracle only"""
    kind = c.get('kind') or ('B' if str(c.get('object', '')).startswith(('Al-Zr', 'B')) else 'M')
    res = Result()
    inst = Instr()
    try:
        ctx.driver_ok = False
        qs = c['sequence']
        first_method = next((v for v in [c.get('first_method')] if v), None) or ('tangent' if any(q.get('name') == 'method' for q in qs) else c.get('method', 'tangent'))
        seq_guarded(ctx, res, kind, first_method, qs, inst, False, 0)
    finally:
        inst.close()
    vlib.finish_guard(res)
    hit = [v for v in res.violations if v['key'] == key]
    for v in hit[:3]:
        print('  ', v['key'], v['what'], v['observed'], v['required'])
    return not hit
