"""C07 — size-class transport: correspondence PopulationBalance.py <-> KawinV.PBM, plus an
independent scalar reference (direct oracle of the property on the implementation).
Second part (corr_grain): real GrainGrowthModel runs (kawin/precipitation/coupling/GrainGrowth.py, the second anchor):
every getdXdt / getDt / correctdXdt / postProcess call of every iteration is captured by wrappers on the instance and
checked with the same scalar reference (step limit over the classes from the dissolution index of the CURRENT grid,
budget, limiter, non-negativity) and replayed through the Lean model (KawinV.PBM, KawinV.Grain.postProcess/getDt/reset)."""
import math
import numpy as np
import vlib
from vlib import Result, enc_list, f2b, Toks, close

PROP = 'C07'
META = {
    'level_text': 'Lean 4 theorems for every grid size, distribution, growth field, nucleation term and step (budget by telescoping, one-sided ends, upwind adjacent-class exchange, unique nucleation class = the class [b_k, b_k+1) found by a scan, for every radius incl. radii exactly on a boundary (first boundary -> class 0, never the last class; witness for the searchsorted-left variant), the same class in the corrected rate, face-wise limiter and class-wise total-outflow limiter, UNCONDITIONAL non-negativity of the corrected Euler update, step-limit formula, non-negativity under the limit; the dissolution index is a function of the stored distribution and grid and invariant under Normalize, GrainGrowthModel.postProcess/reset store the index of the grid they leave, so getDt proposes the limit for the CURRENT grid; witnesses that a re-binning changes the index and that a stale index changes the step) about an executable model of getdXdtEuler/correctdXdtEuler/getDTEuler/getDissolutionIndex and of the order of operations of GrainGrowthModel.postProcess; the model is tied to PopulationBalance.py and GrainGrowth.py by differential correspondence on every run (random PBM cases and every call of every iteration of real GrainGrowthModel runs, explicit Euler and RK4, adaptive grids that extend and re-bin), and the property predicate is also evaluated on the implementation outputs against an independent scalar reference.',
    'level_note': 'Trusted: Lean kernel + Mathlib, axioms propext/Classical.choice/Quot.sound; the hand model KawinV.PBM equals the NumPy code only as far as this run compared them (thousands of structured cases); exact-field arithmetic instead of IEEE doubles; NaN/inf growth rates outside the statement. Grain-growth part: the grid adjustment inside postProcess is taken as observed (its model is C08), the model ties the ORDER update -> adjust -> index -> normalize; long default-bin runs (thousands of iterations) are in the thorough tier, their Lean replay is sub-sampled (every 10th iteration + all iterations around grid changes), the oracle sees every iteration.',
    'technique': 'Lean 4 proof over ordered fields + model/implementation differential correspondence',
    'design_ref': 'DESIGN.md section 6, C07',
}
LEAN_MODULES = ['KawinV.Props.C07']
MONITORED = []
ASSUMPTIONS = [
    'distributions are non-negative and finite, growth fields finite (NaN/inf growth is outside the statement)',
    'exact-field theorems vs IEEE doubles: sums compared with rtol 1e-9 scaled by the magnitude of the summed terms',
    'grain growth: the distribution is populated (Normalize divides by the third moment); a cumulative volume within 1e-9 of the maxDissolution threshold or a face within 1e-9 of a pinning threshold is counted as a tie and skipped',
]
TRUSTED = ['np.argmax/np.sign/np.linspace semantics as modelled in KawinV.PBM (compared on every run)',
           'run-time wrappers set on the GrainGrowthModel / PopulationBalanceModel INSTANCE (getdXdt, correctdXdt, getDt, postProcess, adjustSizeClassesEuler) only observe; /repo is never edited']


def gen_case(rng):
    """structured, mostly physical inputs; returns dict"""
    kind = rng.choice(['tiny', 'small', 'small', 'medium', 'large'])
    n = {'tiny': rng.randint(1, 3), 'small': rng.randint(2, 12), 'medium': rng.randint(13, 80), 'large': rng.randint(81, 400)}[kind]
    cmin = 10 ** rng.uniform(-10.5, -8)
    cmax = cmin * rng.choice([10, 10, 30, 100])
    dist = rng.choice(['empty', 'single', 'sparse', 'lognormal', 'huge-range', 'uniform', 'ones'])
    gro = rng.choice(['1/R', '1/R', 'signchange', 'zeros', 'allneg', 'allpos', 'random', 'some-zero',
                      'split-in-populated', 'split-in-populated', '1/R-in-populated'])
    # 'boundary': radius exactly on / one ulp below / one ulp above the first, an interior or the last class boundary;
    # 'special': 0 (equal to the first boundary on a grid that starts at R = 0: KWNBase passes Rnuc = 0 while nucleation
    # is insignificant), negative, +inf, -inf
    nuc = rng.choice(['inside', 'inside', 'inside', 'on-boundary', 'below', 'above', 'zero-rate', 'boundary', 'boundary', 'special'])
    hist = rng.choice(['fresh', 'fresh', 'fresh', 'remesh', 'add', 'revert', 'recorded', 'recorded-load'])
    return dict(n=n, cmin=cmin, cmax=cmax, dist=dist, gro=gro, nuc=nuc, hist=hist,
                s=rng.getrandbits(32), dtmul=10 ** rng.uniform(-3, 1), ratio=rng.choice([0.4, 0.4, 0.5, 0.25, 0.1]),
                maxdiss=rng.choice([1e-3, 0.01, 0.1, 0.0]),
                # 'drain': dt is a multiple of the time in which the fastest two-sided class would empty (classes below the
                # dissolution index / caller-chosen dt are not covered by getDTEuler), so the class-wise third pass is active
                dtkind=rng.choice(['limit', 'limit', 'drain']), dmult=10 ** rng.uniform(-0.5, 2.5),
                nucpos=rng.choice(NUC_POS), nucoff=rng.choice(NUC_OFF), nucspecial=rng.choice(NUC_SPECIAL),
                cmin0=rng.random() < 0.12)     # grid starting at R = 0 (setAxes provides for it)


NUC_POS = ['first', 'interior', 'last']
NUC_OFF = ['exact', 'ulp-below', 'ulp-above']
NUC_SPECIAL = ['zero', 'zero', 'negative', 'inf', '-inf']
GEN_KEYS = ['n', 'cmin', 'cmax', 'dist', 'gro', 'nuc', 'hist', 's', 'dtmul', 'ratio', 'maxdiss', 'dtkind', 'dmult',
            'nucpos', 'nucoff', 'nucspecial', 'cmin0']


def boundary_sweep(rng, ngrids):
    """systematic part: for each of `ngrids` random grids (1, 2, 3, ... 300 classes, every third one starting at R = 0,
    random grid history / distribution / growth field / dt) ALL nine boundary-exact radii (first | interior | last boundary
    x exact | one ulp below | one ulp above) and the special radii 0, negative, +inf, -inf; every case runs through the
    same oracles and the same model correspondence as the random cases"""
    out = []
    for g in range(ngrids):
        c = gen_case(rng)
        c['n'] = [1, 2, 3, rng.randint(4, 12), rng.randint(13, 80), rng.randint(81, 300)][g % 6]
        c['cmin0'] = (g % 3 == 1)
        for pos in NUC_POS:
            for off in NUC_OFF:
                out.append(dict(c, nuc='boundary', nucpos=pos, nucoff=off, sweep=g))
        for sp in ('zero', 'negative', 'inf', '-inf'):
            out.append(dict(c, nuc='special', nucspecial=sp, sweep=g))
    return out


def build(case):
    vlib.use_repo()
    from kawin.precipitation.PopulationBalance import PopulationBalanceModel
    r = np.random.default_rng(case['s'])
    n = case.setdefault('n0', case['n'])     # requested number of classes (case['n'] becomes the number after the grid history)
    cmin = 0.0 if case.get('cmin0') else case['cmin']
    pbm = PopulationBalanceModel(cMin=cmin, cMax=case['cmax'], bins=n, minBins=max(1, n // 2), maxBins=3 * n + 40)
    # the transport functions must work on whatever grid the object currently holds: reach the grid through public
    # grid operations as well (re-mesh, extension, backup/revert, restoring a recorded distribution), not only by construction
    h = case.get('hist', 'fresh')
    if cmin == 0.0 and h in ('recorded', 'recorded-load'):
        # restoring a recorded distribution on a grid that starts at R = 0 lost the last class / raised (found by this
        # generator; _grabPSDfromIndex counted the NON-ZERO recorded boundaries; repaired in /repo as a549be2, recorded under
        # C08): the combination is generated and counted in the histogram; the transport oracles run on whatever grid the restore leaves
        case['hist_requested'] = 'recorded-on-grid-from-0'
    if h == 'remesh':
        pbm.changeSizeClasses(cmin * r.uniform(0.5, 2), case['cmax'] * r.uniform(0.5, 3), max(1, int(n * r.uniform(0.4, 2.0))))
    elif h == 'add':
        pbm.addSizeClasses(int(r.integers(1, 20)))
    elif h == 'revert':
        pbm.createBackup()
        pbm.changeSizeClasses(cmin, case['cmax'] * 4, max(1, n // 2))
        pbm.revert()
    elif h in ('recorded', 'recorded-load'):
        pbm.enableRecording()
        pbm.PSD = np.full(pbm.bins, 1e10); pbm.record(1.0)
        pbm.changeSizeClasses(cmin, case['cmax'] * 3, max(1, (2 * n) // 3))
        pbm.PSD = np.full(pbm.bins, 1e10); pbm.record(2.0)
        if h == 'recorded-load':
            import tempfile, os, io, contextlib
            d = tempfile.mkdtemp(prefix='c07_')
            try:
                pbm.saveRecordedPSD(os.path.join(d, 'psd'))
                pbm = PopulationBalanceModel()
                pbm.loadRecordedPSD(os.path.join(d, 'psd.npz'))
            finally:
                import shutil; shutil.rmtree(d, ignore_errors=True)
        import io, contextlib
        with contextlib.redirect_stdout(io.StringIO()):
            pbm.setPSDtoRecordedTime(0.5)
    n = case['n'] = int(pbm.bins)
    R = pbm.PSDsize
    d = case['dist']
    if d == 'empty':
        psd = np.zeros(n)
    elif d == 'single':
        psd = np.zeros(n); psd[r.integers(0, n)] = 10 ** r.uniform(0, 25)
    elif d == 'sparse':
        psd = np.where(r.random(n) < 0.3, 10 ** r.uniform(0, 22, n), 0.0)
    elif d == 'lognormal':
        mu = r.uniform(0.1, 0.9) * n
        psd = 1e20 * np.exp(-0.5 * ((np.arange(n) - mu) / max(1.0, 0.15 * n)) ** 2)
    elif d == 'huge-range':
        psd = 10 ** r.uniform(-30, 30, n)
    elif d == 'uniform':
        psd = np.full(n, 10 ** r.uniform(3, 20))
    else:
        psd = np.ones(n)
    b = pbm.PSDbounds
    bs = b if b[0] > 0 else np.maximum(b, 0.5 * (b[1] - b[0]))    # grid starting at 0: keep the 1/R growth laws finite
    g = case['gro']
    rc = b[0] + r.uniform(-0.2, 1.2) * (b[-1] - b[0])
    pop = np.nonzero(psd > 0)[0]
    m = int(pop[r.integers(0, len(pop))]) if len(pop) else int(r.integers(0, n))   # a populated class when there is one
    if g == '1/R':
        flux = 1e-18 * (1 / max(rc, 1e-12) - 1 / bs) / bs * 1e9
    elif g == '1/R-in-populated':
        # physical law with the critical radius strictly inside class m: growth rate changes sign inside a populated class
        rc = b[m] + r.uniform(0.05, 0.95) * (b[m + 1] - b[m])
        flux = 1e-18 * (1 / rc - 1 / bs) / bs * 10 ** r.uniform(7, 11)
    elif g == 'split-in-populated':
        # faces up to m shrink, faces above m grow: class m drains through both faces
        flux = np.where(np.arange(n + 1) <= m, -1.0, 1.0) * 10 ** r.uniform(-14, -8, n + 1)
    elif g == 'signchange':
        flux = np.where(r.random(n + 1) < 0.5, -1.0, 1.0) * 10 ** r.uniform(-14, -8, n + 1)
    elif g == 'zeros':
        flux = np.zeros(n + 1)
    elif g == 'allneg':
        flux = -10 ** r.uniform(-14, -8, n + 1)
    elif g == 'allpos':
        flux = 10 ** r.uniform(-14, -8, n + 1)
    elif g == 'some-zero':
        flux = np.where(r.random(n + 1) < 0.4, 0.0, r.normal(0, 1e-10, n + 1))
    else:
        flux = r.normal(0, 1e-10, n + 1)
    nu = case['nuc']
    nucRate = 0.0 if nu == 'zero-rate' else 10 ** r.uniform(0, 24)
    if nu in ('inside', 'zero-rate'):
        nucRad = b[0] + r.random() * (b[-1] - b[0]) * 0.999
    elif nu == 'on-boundary':
        nucRad = float(b[r.integers(0, n)])   # a lower boundary, incl. b[0]; never the last one
    elif nu == 'below':
        u = r.uniform(0.1, 0.999)
        nucRad = b[0] * u if b[0] > 0 else -b[1] * u
    elif nu == 'boundary':
        pos = case.get('nucpos', 'first')
        j = 0 if (pos == 'first' or (pos == 'interior' and n < 2)) else n if pos == 'last' else int(r.integers(1, n))
        off = case.get('nucoff', 'exact')
        nucRad = float(b[j]) if off == 'exact' else float(np.nextafter(b[j], -np.inf if off == 'ulp-below' else np.inf))
    elif nu == 'special':
        sp = case.get('nucspecial', 'zero')
        nucRad = {'zero': 0.0, 'negative': -float(b[1]) * r.uniform(0.01, 10), 'inf': float('inf'), '-inf': -float('inf')}[sp]
    else:
        nucRad = b[-1] * r.uniform(1.0, 3.0)
    return pbm, psd.astype(float), flux.astype(float), float(nucRate), float(nucRad)


# ------------------------------------------------------------------ independent scalar reference
def ref_netflux(b, flux, psd):
    n = len(psd)
    nf = [0.0] * (n + 1)
    for j in range(n + 1):
        if flux[j] > 0:
            if j >= 1:
                nf[j] = flux[j] * psd[j - 1] / (b[j] - b[j - 1])
        else:
            if j < n:
                nf[j] = flux[j] * psd[j] / (b[j + 1] - b[j])
    return nf


def ref_corrected(nf, psd, dt):
    """independent scalar form of correctdXdtEuler's face fluxes: the two face-wise limits, then the limit on the
    TOTAL outflow of every class (outflow faces of a class scaled by psd/(outflow*dt)).  Returns the corrected
    fluxes, the fluxes after the two face-wise passes alone, and the classes on which the third pass acted."""
    n = len(psd)
    g = [float(v) for v in nf]
    for i in range(n):                      # left faces
        if g[i] * dt < -psd[i]:
            g[i] = -psd[i] / dt
    for i in range(n):                      # right faces
        if g[i + 1] * dt > psd[i]:
            g[i + 1] = psd[i] / dt
    face = list(g)
    active = []
    for i in range(n):                      # every face is an outflow face of at most one class: order is irrelevant
        ol = -face[i] if face[i] < 0 else 0.0
        orr = face[i + 1] if face[i + 1] > 0 else 0.0
        out = ol + orr
        if out * dt > psd[i]:
            sc = psd[i] / (out * dt)
            if ol > 0:
                g[i] = face[i] * sc
            if orr > 0:
                g[i + 1] = face[i + 1] * sc
            active.append((i, ol > 0 and orr > 0))
    return g, face, active


def containing_class(b, r):
    n = len(b) - 1
    for i in range(n):
        if b[i] <= r < b[i + 1]:
            return i
    return None


def nuc_position(b, r):
    """(first|interior|last, exact|ulp-below|ulp-above, j) when the radius is a class boundary b[j] or its floating-point
    neighbour, else None"""
    b = np.asarray(b, dtype=float); n = len(b) - 1
    for off, arr in (('exact', b), ('ulp-below', np.nextafter(b, -np.inf)), ('ulp-above', np.nextafter(b, np.inf))):
        hit = np.nonzero(arr == r)[0]
        if len(hit):
            j = int(hit[0])
            return ('first' if j == 0 else 'last' if j == n else 'interior'), off, j
    return None


def expected_class(b, r):
    """the class [b_k, b_{k+1}) that contains the radius: LOWER boundary included, upper excluded -- the convention of the
    unchanged getdXdtEuler (`np.argmax(PSDbounds > nucRadius) - 1`: first boundary STRICTLY above the radius, minus one), so
    a radius exactly on an interior boundary b_k belongs to class k, the class ABOVE the boundary.  A radius below the first
    boundary has no containing class: the nearest, class 0 (never the last class); a radius at/above the last boundary:
    the last class."""
    n = len(b) - 1
    if r < b[0]:
        return 0, 'below'
    if r >= b[n]:
        return n - 1, 'above'
    return containing_class(b, r), 'inside'


def nuc_oracle(res, desc, b, r, nucRate, exact, withg, without, fn):
    """nuclei enter exactly the class that contains the radius -- evaluated on the implementation's own outputs for the
    function `fn` ('getdXdt' = getdXdtEuler, 'corrected' = correctdXdtEuler, the rate every solver step applies):
    `exact` = rate with a zero growth field (only the nucleation term is left), `withg` / `without` = rate with the case's
    growth field with / without the nucleation term.  Returns the list of receiving classes."""
    n = len(b) - 1
    exact = np.asarray(exact, dtype=float)
    recv = np.nonzero(exact)[0].tolist()
    want, region = expected_class(b, r)
    pb = nuc_position(b, r)
    sfx = '' if fn == 'getdXdt' else ':corrected'
    where = 'class %s' % (recv,) if recv else 'no class'
    if pb is not None:
        res.count('nuc-at-boundary:%s:%s:%s' % (pb[0], pb[1], fn))
        key = 'nucleation-class-at-boundary:%s:%s:%s' % (pb[0], pb[1], fn)
        what = ('%sEuler: nucleation radius %r = %s boundary b[%d] = %r (%s): nuclei entered %s of %d, the class that contains the radius '
                '(lower boundary included, upper excluded; at/below the first boundary: class 0, at/above the last: last class) is %d'
                % (fn if fn == 'getdXdt' else 'correctdXdt', r, pb[0], pb[2], float(b[pb[2]]), pb[1], where, n, want))
        bad = recv != [want]
    elif region == 'inside':
        key = 'nucleation-class' + sfx
        what = 'nuclei did not enter exactly the class containing the radius'
        bad = recv != [want]
    elif region == 'below':
        key = 'nuc-below-grid-enters-class-%s%s' % ('last' if recv == [n - 1] else 'other', sfx)
        what = 'radius below the grid: nuclei entered class %s of %d (no class contains the radius; the nearest is 0)' % (recv, n)
        bad = recv != [want] and recv != []
    else:
        key = 'nuc-above-grid' + sfx
        what = 'radius above the grid: nuclei entered class %s, nearest is the last' % recv
        bad = recv != [want] and recv != []
    if bad:
        res.violate(key, what, desc, recv, [want])
    elif recv == [want] and exact[want] != nucRate:
        res.violate('nucleation-amount' + sfx, 'class %d received %r instead of the nucleation rate' % (want, float(exact[want])), desc, float(exact[want]), nucRate)
    # the same with the growth field present: the nucleation term = rate with - rate without nucleation (identical face
    # fluxes in both calls, so the difference is exactly 0 in every class that receives no nuclei)
    diff = np.asarray(withg, dtype=float) - np.asarray(without, dtype=float)
    nz = np.nonzero(diff)[0].tolist()
    others = [i for i in nz if i != want]
    absorbed = want not in nz and abs(nucRate) >= 1e-3 * abs(float(without[want]))
    if not bad and (others or (absorbed and recv != [])):
        res.violate(key, what + ' [growth field present: classes whose rate changes with the nucleation term: %s]' % nz, desc, nz, [want])
    return recv


def corr(ctx, ncases=None, oracle_only=False, grain=True, sweep=True):
    res = Result()
    res.rule = ('random PBM grids (1-400 classes) x distribution kind x growth-field kind (incl. sign change of the growth rate inside a populated class) '
                'x nucleation radius position (inside, below, above, exactly ON / one ulp below / one ulp above the first, an interior and the last boundary, 0 on grids starting at R = 0, negative, +-inf; '
                'a systematic sweep puts all of these on each of 12 (quick) / 120 (thorough) grids) x dt (multiples of the step limit, and multiples of the time in which a two-sided class empties: third pass active); '
                'the nucleation class is evaluated on getdXdtEuler AND correctdXdtEuler (zero growth field: exact; with the growth field: difference with/without nucleation); '
                'non-trivial = populated distribution and non-zero growth field; distinct = (kind tuple, n, seed)')
    N = ncases or ctx.n(1500, 40000)
    cases, impl, lines, extra = [], [], [], []
    holder = {}
    def one_case(forced=None):
            c = forced if forced is not None else gen_case(ctx.rng); holder['case'] = c
            L = []
            pbm, psd, flux, nucRate, nucRad = build(c)
            n = c['n']; b = pbm.PSDbounds.copy()
            psd0, flux0 = psd.copy(), flux.copy()
            d = pbm.getdXdtEuler(flux, nucRate, nucRad, psd)
            nf = pbm._netFlux.copy()
            d_nuconly = pbm.getdXdtEuler(np.zeros(n + 1), nucRate, nucRad, psd)   # zero growth: only the nucleation term is left
            # step limit
            if c['maxdiss'] > 0 and psd.sum() > 0:
                pbm.PSD = psd.copy()
                dissIdx = int(pbm.getDissolutionIndex(c['maxdiss'], 0))
            else:
                dissIdx = 0
            pbm.PSD = psd.copy()
            currDT = 1.0e5
            dtlim = float(pbm.getDTEuler(currDT, flux, dissIdx, c['ratio']))
            dt = dtlim * c['dtmul'] if c['dtmul'] < 5 else dtlim * 10
            if c.get('dtkind') == 'drain':
                outl = np.maximum(-nf[:-1], 0); outr = np.maximum(nf[1:], 0)
                two = (outl > 0) & (outr > 0) & (psd > 0)
                if two.any():
                    dt = float(c['dmult'] * np.min(psd[two] / (outl[two] + outr[two])))
            pbm.getdXdtEuler(flux, nucRate, nucRad, psd)
            dc = pbm.correctdXdtEuler(dt, flux, nucRate, nucRad, psd)
            nfc = pbm._netFlux.copy()
            # the nucleation term of BOTH functions: same growth field without nucleation, and zero growth field with nucleation
            zero = np.zeros(n + 1)
            nx = dict(d0=pbm.getdXdtEuler(flux, 0.0, nucRad, psd))
            pbm.getdXdtEuler(flux, 0.0, nucRad, psd)
            nx['dc0'] = pbm.correctdXdtEuler(dt, flux, 0.0, nucRad, psd)
            pbm.getdXdtEuler(zero, nucRate, nucRad, psd)
            nx['dc_nuconly'] = pbm.correctdXdtEuler(dt, zero, nucRate, nucRad, psd)
            argmod = not (np.array_equal(psd, psd0) and np.array_equal(flux, flux0) and not zero.any())
            L.append('pbm.dxdt %s %s %s %s %s' % (enc_list(b), enc_list(flux), enc_list(psd), f2b(nucRate), f2b(nucRad)))
            L.append('pbm.correct %s %s %s %s %s %s' % (enc_list(b), enc_list(flux), enc_list(psd), f2b(nucRate), f2b(nucRad), f2b(dt)))
            L.append('pbm.getdt %s %s %s %d %s %s' % (enc_list(b), enc_list(flux), enc_list(psd), dissIdx, f2b(currDT), f2b(c['ratio'])))
            # dissolution index with a non-trivial lower bound as well (the caller passes RdrivingForceIndex)
            minIdx = int(np.random.default_rng(c['s'] + 7).integers(0, max(1, n // 3) + 1))
            pbm.PSD = psd.copy()
            dI = int(pbm.getDissolutionIndex(c['maxdiss'] if c['maxdiss'] > 0 else 1e-3, minIdx))
            L.append('pbm.dissidx %s %s %s %d' % (enc_list(psd), enc_list(pbm.PSDsize), f2b(c['maxdiss'] if c['maxdiss'] > 0 else 1e-3), minIdx))
            L.append('pbm.nucidx %s %s' % (enc_list(b), f2b(nucRad)))
            # all implementation calls of this case succeeded: register it atomically
            cases.append((c, b, psd, flux, nucRate, nucRad, dissIdx, dt, currDT))
            impl.append((d, nf, d_nuconly, dtlim, dc, nfc, argmod, nx))
            extra.append((minIdx, dI, pbm.PSDsize.copy()))
            lines.extend(L)

    # systematic boundary-exact nucleation radii on top of the random cases (all 9 + 4 radii on each of a few grids)
    sweep = boundary_sweep(ctx.rng, ctx.n(12, 120) if ncases is None else max(12, ncases // 100)) if sweep else []
    for forced in [None] * N + sweep:
        holder.clear()
        ok, _ = vlib.guarded(res, 'pbm-transport', holder, one_case, forced)
        if not ok and res.violations and res.violations[-1]['key'].startswith('raises:'):
            res.violations[-1]['case'] = dict(holder.get('case', {}))
    model = vlib.run_driver(PROP, lines) if (ctx.driver_ok and not oracle_only) else None

    NL = 5      # driver lines per case
    for k, ((c, b, psd, flux, nucRate, nucRad, dissIdx, dt, currDT), (d, nf, d_nuconly, dtlim, dc, nfc, argmod, nx)) in enumerate(zip(cases, impl)):
        n = c['n']
        nontriv = psd.max() > 0 and np.abs(flux).max() > 0
        nuclabel = c['nuc'] + (':%s:%s' % (c['nucpos'], c['nucoff']) if c['nuc'] == 'boundary' else ':' + c['nucspecial'] if c['nuc'] == 'special' else '')
        res.case((c['dist'], c['gro'], nuclabel, c['hist'], n, c['s']), nontriv)
        res.count('dist:' + c['dist']); res.count('growth:' + c['gro']); res.count('nuc:' + nuclabel); res.count('grid-history:' + c['hist'])
        if 'hist_requested' in c:
            res.count('grid-history:' + c['hist_requested'])
        if b[0] == 0:
            res.count('grid-starts-at-0')
            if nucRad == 0 and nucRate != 0:
                res.count('grid-starts-at-0:Rnuc=0')
        res.count('n<=3' if n <= 3 else 'n<=80' if n <= 80 else 'n>80')
        desc = dict(c, bounds=[float(b[0]), float(b[-1])], nucRate=nucRate, nucRadius=nucRad, dt=dt, dissIdx=dissIdx)
        if k < 2:
            res.sample(dict(desc, psd_head=psd[:4].tolist(), flux_head=flux[:4].tolist(), dXdt_head=np.asarray(d)[:4].tolist()))
        scale = float(np.abs(nf).max()) + abs(nucRate)
        # ---------------- correspondence
        if model is not None:
            t = Toks(model[NL * k])
            if not t.ok:
                res.disagree('pbm.dxdt model error ' + str(t.err), desc, 'ok', t.err)
            else:
                mk = t.nat(); mnf = t.flts(); md = t.flts()
                recv = np.nonzero(np.asarray(d_nuconly))[0].tolist() if nucRate != 0 else None
                if recv is not None and recv != [mk]:
                    res.disagree('nucleation class index', desc, recv, mk)
                if not vlib.all_close(nf, mnf, 1e-9, 1e-300):
                    res.disagree('netFlux', desc, nf.tolist(), mnf)
                if not vlib.all_close(d, md, 1e-9, scale * 1e-3):
                    res.disagree('dXdt', desc, np.asarray(d).tolist(), md)
            t = Toks(model[NL * k + 1])
            if not t.ok:
                res.disagree('pbm.correct model error', desc, 'ok', t.err)
            else:
                mkc = t.nat(); mnfc = t.flts(); mdc = t.flts()
                recvc = np.nonzero(np.asarray(nx['dc_nuconly']))[0].tolist() if nucRate != 0 else None
                if recvc is not None and recvc != [mkc]:
                    res.disagree('nucleation class index (correctdXdtEuler)', desc, recvc, mkc)
                if not vlib.all_close(nfc, mnfc, 1e-9, 1e-300):
                    res.disagree('corrected netFlux', desc, nfc.tolist(), mnfc)
                if not vlib.all_close(dc, mdc, 1e-9, scale * 1e-3):
                    res.disagree('corrected dXdt', desc, np.asarray(dc).tolist(), mdc)
            t = Toks(model[NL * k + 2])
            if not t.ok or not close(dtlim, t.flt(), 1e-12):
                res.disagree('getDTEuler', desc, dtlim, model[NL * k + 2])
            t = Toks(model[NL * k + 3]); minIdx, dI, size = extra[k]
            md = c['maxdiss'] if c['maxdiss'] > 0 else 1e-3
            cum = np.cumsum(psd * size ** 3); tot = float(np.sum(psd * size ** 3))
            tie = tot > 0 and np.any(np.abs(cum - md * tot) <= 1e-9 * tot)
            if tie:
                res.near_tie_skipped += 1
            elif not t.ok or t.nat() != dI:
                res.disagree('getDissolutionIndex', desc, dI, model[NL * k + 3])
            # the code's index (KawinV.PBM.nucIndex) and the class scan (nucIdx) against BOTH implementation functions
            t = Toks(model[NL * k + 4])
            if not t.ok:
                res.disagree('pbm.nucidx model error ' + str(t.err), desc, 'ok', t.err)
            elif nucRate != 0:
                mi, ms = t.nat(), t.nat()
                rg = np.nonzero(np.asarray(d_nuconly))[0].tolist(); rc_ = np.nonzero(np.asarray(nx['dc_nuconly']))[0].tolist()
                if rg != [mi] or rc_ != [mi]:
                    res.disagree('nucIndex (argmax - 1, wrap, guard) vs getdXdtEuler / correctdXdtEuler', desc, [rg, rc_], mi)
                if rg != [ms] or rc_ != [ms]:
                    res.disagree('nucIdx (class scan) vs getdXdtEuler / correctdXdtEuler', desc, [rg, rc_], ms)
        # ---------------- direct oracle (independent scalar reference)
        minIdx, dI, size = extra[k]
        md = c['maxdiss'] if c['maxdiss'] > 0 else 1e-3
        vol = [float(a) * float(r) ** 3 for a, r in zip(psd, size)]
        tot = math.fsum(vol)
        if dI < minIdx:
            res.violate('dissolution-index-below-min', 'dissolution index below the index of the last unstable class', desc, dI, minIdx)
        elif dI > minIdx:
            below = math.fsum(vol[:dI])          # volume of the classes that the step limit ignores
            if below > md * tot * (1 + 1e-9) + 1e-300:
                res.violate('dissolution-index-ignores-too-much', 'classes below the dissolution index hold more than maxDissolution of the '
                            'particle volume', desc, below / tot if tot else below, md)
            res.count('dissidx>min')
        rnf = ref_netflux(b, flux, psd)
        if argmod:
            res.violate('pbm-call-modifies-arguments', 'a PBM transport call modified its psd/flux argument', desc)
        # adjacent-only upwind exchange
        for j in range(n + 1):
            if not close(nf[j], rnf[j], 1e-9, 1e-300):
                res.violate('upwind-face-flux', 'face %d flux is not the upwind adjacent-class flux' % j, desc, float(nf[j]), rnf[j]); break
        # budget
        tot = float(np.sum(d)); need = rnf[0] - rnf[n] + (nucRate)
        mag = float(np.sum(np.abs(rnf))) * 2 + abs(nucRate)
        if not close(tot, need, 1e-9, mag):
            res.violate('budget', 'sum dXdt != flux(0) - flux(n) + nucRate', desc, tot, need)
        totc = float(np.sum(dc)); needc = float(nfc[0] - nfc[n] + nucRate)
        if not close(totc, needc, 1e-9, float(np.sum(np.abs(nfc))) * 2 + abs(nucRate)):
            res.violate('budget-corrected', 'sum corrected dXdt != corrected end fluxes + nucRate', desc, totc, needc)
        if rnf[0] > 0 or rnf[n] < 0 or nf[0] > 0 or nf[n] < 0 or nfc[0] > 0 or nfc[n] < 0:
            res.violate('ends-one-sided', 'particles enter through an end of the grid', desc, [float(nf[0]), float(nf[n])])
        # nucleation class: getdXdtEuler AND correctdXdtEuler (the rate every solver step applies), and their agreement
        if nucRate != 0:
            want, region = expected_class(b, nucRad)
            res.count('nuc-outside-below' if region == 'below' else 'nuc-outside-above' if region == 'above' else 'nuc-inside')
            recv_g = nuc_oracle(res, desc, b, nucRad, nucRate, d_nuconly, d, nx['d0'], 'getdXdt')
            recv_c = nuc_oracle(res, desc, b, nucRad, nucRate, nx['dc_nuconly'], dc, nx['dc0'], 'corrected')
            if recv_g != recv_c:
                pb = nuc_position(b, nucRad)
                res.violate('nucleation-class-getdXdt-vs-corrected' + (':%s:%s' % pb[:2] if pb else ''),
                            'getdXdtEuler put the nuclei (radius %r) into class %s, correctdXdtEuler into class %s of %d' % (nucRad, recv_g, recv_c, n),
                            desc, recv_c, recv_g)
        # corrected fluxes: scalar reference of the three passes, and what the passes must achieve
        rcf, rface, active = ref_corrected(rnf, [float(v) for v in psd], dt)
        signchange = any(flux[i] < 0 and flux[i + 1] > 0 and psd[i] > 0 for i in range(n))
        if signchange:
            res.count('sign-change-inside-populated-class')
        if active:
            res.count('third-pass-active')
            if any(two for _, two in active):
                res.count('third-pass-active:class-drained-through-both-faces')
        old = [psd[i] + dt * (rface[i] - rface[i + 1]) for i in range(n)]
        if any(old[i] < -1e-6 * psd[i] - 1e-300 for i in range(n)):
            res.count('face-wise-passes-alone-would-go-negative')
        for j in range(n + 1):
            if not close(nfc[j], rcf[j], 1e-9, 1e-300):
                res.violate('corrected-flux-not-reference', 'corrected flux of face %d is not the face-wise + total-outflow limited flux' % j,
                            desc, float(nfc[j]), rcf[j]); break
        for j in range(n + 1):
            if nfc[j] * nf[j] < 0 or abs(nfc[j]) > abs(nf[j]) * (1 + 1e-12):
                res.violate('correction-not-a-limiter', 'the correction reversed or increased the flux of face %d' % j, desc, float(nfc[j]), float(nf[j])); break
        newc = psd + dt * np.asarray(dc)
        for i in range(n):
            # (b): unconditional -- every class of every generated case, whatever dt and the dissolution index
            if newc[i] < -1e-9 * psd[i] - 1e-300:
                res.violate('negative-after-correction', 'class %d negative after an Euler step with the CORRECTED rate of change '
                            '(holds %r, left face %r, right face %r per dt)' % (i, float(psd[i]), float(nfc[i] * dt), float(nfc[i + 1] * dt)),
                            desc, float(newc[i]), 0.0); break
        for i in range(n):
            out = max(-nfc[i], 0.0) + max(nfc[i + 1], 0.0)
            if out * dt > psd[i] * (1 + 1e-9) + 1e-300:
                res.violate('total-outflow', 'after correction class %d loses through both faces more than it holds' % i, desc, float(out * dt), float(psd[i])); break
        # limiter
        tol = 1e-9
        for i in range(n):
            if dt > 0 and (nfc[i] * dt < -psd[i] * (1 + tol) - 1e-300 or nfc[i + 1] * dt > psd[i] * (1 + tol) + 1e-300):
                res.violate('limiter', 'after correction class %d loses more through one face than it holds' % i, desc,
                            [float(nfc[i] * dt), float(nfc[i + 1] * dt)], float(psd[i])); break
        # step limit formula + non-negativity under the model's own limit (dissolution index 0)
        sel = [abs(flux[j]) for j in range(dissIdx, n) if psd[j] > 0]
        want = currDT if (not sel or max(sel) == 0) else c['ratio'] * (b[1] - b[0]) / max(sel)
        if not close(dtlim, want, 1e-12):
            res.violate('step-limit', 'getDTEuler is not ratio*width/fastest relevant rate', desc, dtlim, want)
        if sel and max(sel) > 0 and c['ratio'] <= 0.5:
            new = psd + dtlim * np.asarray(d)
            dR = b[1] - b[0]
            for i in range(n):
                # a class obeys the model's own step limit when both of its faces move <= ratio*width in dt
                if dtlim * abs(flux[i]) <= c['ratio'] * dR and dtlim * abs(flux[i + 1]) <= c['ratio'] * dR:
                    res.count('nonneg-class-checked')
                    if new[i] < -1e-9 * psd[i] - 1e-300:
                        res.violate('nonneg-under-limit', 'class %d negative after an Euler step at the model step limit' % i, desc, float(new[i]), 0.0); break
    if grain:
        corr_grain(ctx, res, oracle_only)
    vlib.finish_guard(res)
    return res


# ====================================================================== grain-growth part
# GrainGrowthModel (kawin/precipitation/coupling/GrainGrowth.py, second anchor of C07) drives the same transport:
# getdXdt -> pbm.getdXdtEuler, correctdXdt -> pbm.correctdXdtEuler, getDt -> pbm.getDTEuler(.., self.dissolutionIndex),
# postProcess -> UpdatePBMEuler, adjustSizeClassesEuler(True), getDissolutionIndex, Normalize.  Real models are run with
# wrappers set on the INSTANCE; every call of every iteration is captured and checked (oracle + Lean model).
GRAIN_BINS_SMALL = [(12, 8, 16), (16, 8, 20), (20, 10, 24), (30, 20, 40), (24, 12, 40)]
GRAIN_BINS_MEDIUM = [(60, 40, 80)]
GRAIN_BINS_DEFAULT = [(150, 100, 200)]
GRAIN_RATIO = 0.4          # "the stated fraction": default maxBinRatio of getDTEuler, which getDt does not override


class _GrainStop(Exception):
    pass


class _Obj(object):
    pass


def gen_grain(rng, size='small', maxit=250):
    bins = rng.choice({'small': GRAIN_BINS_SMALL, 'medium': GRAIN_BINS_MEDIUM, 'default': GRAIN_BINS_DEFAULT}[size])
    cmin = 10 ** rng.uniform(-7.3, -6.7)
    span = rng.choice([50, 100, 200])
    M = 10 ** rng.uniform(-15, -12.5); gbe = rng.uniform(0.3, 1.0); alpha = rng.choice([1.0, 1.0, 0.5])
    dist = rng.choice(['rayleigh', 'rayleigh', 'lognormal', 'bimodal', 'narrow-low', 'data'])
    centre = rng.uniform(0.12, 0.35)
    R0 = centre * cmin * span
    tau = R0 * R0 / (alpha * M * gbe)                       # time scale of the growth law dR/dt ~ alpha*M*gbe/R
    zener = None
    if rng.random() < 0.4:
        # constant pinning term through the public route computeZenerRadius(model): z = f^m / (K r) = 1/Rz
        Rz = R0 * rng.choice([3.0, 8.0, 20.0])
        f = 10 ** rng.uniform(-3, -1.5)
        zener = dict(f=f, r=f * Rz / (4.0 / 3.0))
    return dict(bins=list(bins), cmin=cmin, cmax=cmin * span, M=M, gbe=gbe, alpha=alpha, dist=dist, centre=centre,
                width=rng.uniform(0.25, 0.5), s=rng.getrandbits(32), zener=zener,
                maxdiss=rng.choice([1e-6, 1e-6, 1e-3, 1e-2, 0.05]),
                solver=rng.choice(['euler', 'euler', 'rk4']),
                hist=rng.choice(['load', 'load', 'load', 'two-solves', 'reset-before-solve']),
                tsim=tau * rng.choice([0.3, 3.0, 1e6, 1e6]), maxit=maxit)


def grain_model(cfg):
    """a real GrainGrowthModel in the configured initial state"""
    vlib.use_repo()
    from kawin.precipitation.coupling.GrainGrowth import GrainGrowthModel
    b = cfg['bins']
    m = GrainGrowthModel(cfg['cmin'], cfg['cmax'], b[0], b[1], b[2])
    m.setGrainBoundaryMobility(cfg['M']); m.setGrainBoundaryEnergy(cfg['gbe']); m.setAlpha(cfg['alpha'])
    m.maxDissolution = cfg['maxdiss']
    R0 = cfg['centre'] * cfg['cmax']; w = cfg['width']; cmax = cfg['cmax']
    d = cfg['dist']
    if d == 'data':
        r = np.random.default_rng(cfg['s'])
        m.LoadDistribution(R0 * np.exp(w * r.standard_normal(4000)))
    else:
        if d == 'rayleigh':
            f = lambda R: (R / R0) * np.exp(-2 * (R / R0) ** 2) * (R < 0.75 * cmax)
        elif d == 'lognormal':
            f = lambda R: np.exp(-0.5 * (np.log(R / R0) / w) ** 2) / R * (R < 0.8 * cmax)
        elif d == 'bimodal':
            f = lambda R: (np.exp(-0.5 * ((R - 0.5 * R0) / (0.15 * R0)) ** 2) + 0.2 * np.exp(-0.5 * ((R - 1.6 * R0) / (0.2 * R0)) ** 2)) * (R < 0.8 * cmax)
        else:   # 'narrow-low': populated only in the lowest part of the grid (the dissolution split of adjustSizeClassesEuler)
            f = lambda R: np.exp(-0.5 * ((R - 0.08 * cmax) / (0.02 * cmax)) ** 2) * (R < 0.2 * cmax)
        m.LoadDistributionFunction(f)
    if cfg['hist'] == 'reset-before-solve':
        m.reset()
    if cfg['zener'] is not None:
        pm = _Obj(); pm.phases = ['P']; pm.pData = _Obj(); pm.pData.n = 0
        pm.pData.Ravg = np.array([[cfg['zener']['r']]]); pm.pData.volFrac = np.array([[cfg['zener']['f']]])
        m.computeZenerRadius(pm)
    return m


def grain_run(cfg):
    """runs the model; returns the captured calls [(kind, iteration, dict)], in call order"""
    vlib.use_repo()
    from kawin.solver import SolverType
    m = grain_model(cfg)
    rec = []
    st = {'it': 0, 'stage': 0}
    o_dxdt, o_corr, o_dt, o_post, o_adj = m.getdXdt, m.correctdXdt, m.getDt, m.postProcess, m.pbm.adjustSizeClassesEuler

    def grid():
        return dict(b=np.array(m.pbm.PSDbounds, dtype=float), size=np.array(m.pbm.PSDsize, dtype=float), bins=int(m.pbm.bins))

    def getdXdt(t, x):
        x0 = np.array(x[0], dtype=float)
        out = o_dxdt(t, x)
        st['stage'] += 1
        rec.append(('dxdt', st['it'], dict(grid(), x=x0, x_after=np.array(x[0], dtype=float), growth=np.array(m._growthRate, dtype=float),
                                           d=np.array(out[0], dtype=float), nf=np.array(m.pbm._netFlux, dtype=float), stage=st['stage'], z=float(m._z))))
        return out

    def getDt(dXdt):
        if st['it'] >= cfg['maxit']:
            raise _GrainStop()
        dt = o_dt(dXdt)
        rec.append(('dt', st['it'], dict(grid(), dt=float(dt), psd=np.array(m.pbm.PSD, dtype=float), growth=np.array(m._growthRate, dtype=float),
                                         idx=int(m.dissolutionIndex), remaining=float(m.finalTime - m.time[-1]),
                                         ratio_used=float(getattr(m.pbm, 'maxRatio', float('nan'))))))
        return dt

    def correctdXdt(dt, x, dXdt):
        x0 = np.array(x[0], dtype=float); nf0 = np.array(m.pbm._netFlux, dtype=float)
        o_corr(dt, x, dXdt)
        rec.append(('corr', st['it'], dict(grid(), dt=float(dt), x=x0, x_after=np.array(x[0], dtype=float), nf0=nf0, growth=np.array(m._growthRate, dtype=float),
                                           d=np.array(dXdt[0], dtype=float), nf=np.array(m.pbm._netFlux, dtype=float), stage=st['stage'])))

    adj = {}
    def adjust(*a, **k):
        adj['pre'] = dict(grid(), psd=np.array(m.pbm.PSD, dtype=float))
        r = o_adj(*a, **k)
        adj['post'] = dict(grid(), psd=np.array(m.pbm.PSD, dtype=float))
        return r

    def postProcess(time, x):
        xin = np.array(x[0], dtype=float)
        adj.clear()
        out = o_post(time, x)
        rec.append(('post', st['it'], dict(grid(), xin=xin, pre=adj.get('pre'), adj=adj.get('post'), idx=int(m.dissolutionIndex),
                                           psd=np.array(m.pbm.PSD, dtype=float))))
        st['it'] += 1; st['stage'] = 0
        return out

    rec.append(('init', 0, dict(grid(), psd=np.array(m.pbm.PSD, dtype=float), idx=int(m.dissolutionIndex))))
    m.getdXdt, m.correctdXdt, m.getDt, m.postProcess = getdXdt, correctdXdt, getDt, postProcess
    m.pbm.adjustSizeClassesEuler = adjust
    solver = SolverType.EXPLICITEULER if cfg['solver'] == 'euler' else SolverType.RK4
    try:
        if cfg['hist'] == 'two-solves':
            m.solve(0.4 * cfg['tsim'], solverType=solver)
            m.solve(0.6 * cfg['tsim'], solverType=solver)
        else:
            m.solve(cfg['tsim'], solverType=solver)
    except _GrainStop:
        pass
    return m, rec


def ref_centres(b):
    return [0.5 * (float(b[i]) + float(b[i + 1])) for i in range(len(b) - 1)]


def ref_diss_index(psd, b, maxdiss):
    """the model's own rule (getDissolutionIndex(maxDissolution, 0)) as an independent scalar loop over the CURRENT
    distribution and grid: first class at which the cumulative particle volume exceeds maxDissolution x total volume
    (0 when there is none).  Second value: a cumulative sum lies within rounding of the threshold (index not decidable)."""
    R = ref_centres(b)
    vol = [float(p) * r ** 3 for p, r in zip(psd, R)]
    tot = math.fsum(vol)
    thr = maxdiss * tot
    first, c, tie = None, 0.0, False
    for i, v in enumerate(vol):
        c += v
        if abs(c - thr) <= 1e-9 * abs(tot):
            tie = True
        if first is None and c > thr:
            first = i
    return (0 if first is None else first), tie


def ref_growth(cfg, z, x, b):
    """independent scalar form of the pinned growth law at the class boundaries; second value: a boundary lies within
    rounding of a pinning threshold"""
    R = ref_centres(b)
    m1 = math.fsum(float(p) * r for p, r in zip(x, R)); m2 = math.fsum(float(p) * r * r for p, r in zip(x, R))
    rcr = m2 / m1
    k = cfg['alpha'] * cfg['M'] * cfg['gbe']
    out, tie = [], False
    for bj in b:
        g = k * (1.0 / rcr - 1.0 / float(bj)); dz = k * z
        up, lo = g + dz, g - dz
        sc = k * max(1.0 / rcr, 1.0 / float(bj))
        if abs(up) <= 1e-9 * sc or abs(lo) <= 1e-9 * sc:
            tie = True
        out.append(up if up < 0 else lo if lo > 0 else 0.0)
    return out, tie


def corr_grain(ctx, res, oracle_only=False, cfgs=None, lean_stride=None):
    """grain-growth part: every iteration of real GrainGrowthModel runs"""
    if cfgs is None:
        rng = ctx.rng
        if ctx.thorough:
            cfgs = [gen_grain(rng, 'small', 1200) for _ in range(16)] + [gen_grain(rng, 'medium', 3000) for _ in range(4)] + \
                   [gen_grain(rng, 'default', 8000) for _ in range(4)]
            cfgs[-1].update(solver='rk4', tsim=cfgs[-1]['tsim'] * 1e6); cfgs[-2].update(solver='euler', tsim=cfgs[-2]['tsim'] * 1e6)
            # the long default-bin history of the kind that hides a stale index (re-binned 187 -> 100 after ~1800 iterations)
            cfgs.append(dict(bins=[150, 100, 200], cmin=1e-7, cmax=2e-5, M=1e-14, gbe=0.5, alpha=1.0, dist='rayleigh', centre=0.25,
                             width=0.3, s=1, zener=None, maxdiss=1e-6, solver='euler', hist='load', tsim=3e5, maxit=8000))
        else:
            cfgs = [gen_grain(rng, 'small', 220) for _ in range(7)] + [gen_grain(rng, 'medium', 160)] + [gen_grain(rng, 'default', 60)]
            # every run exercises: a large maxDissolution on a small grid (index changes at each re-binning), both iterators,
            # and the public reset() before solve
            cfgs[0].update(maxdiss=0.05, solver='euler', hist='load'); cfgs[1].update(maxdiss=1e-2, solver='rk4', hist='load')
            cfgs[2].update(hist='reset-before-solve', maxdiss=1e-2, dist='rayleigh'); cfgs[3].update(dist='narrow-low')
            cfgs[7].update(maxdiss=1e-3)
    res.rule += (' | grain: real GrainGrowthModel runs (stand-alone solve, explicit Euler and RK4, 5 initial distributions incl. histogram data, mobility/energy/alpha, '
                 'constant Zener pinning through computeZenerRadius, maxDissolution 1e-6..0.05, small/medium/default bin constraints so that the grid extends and re-bins, '
                 'one or two solve calls, reset() before solve); every getdXdt/getDt/correctdXdt/postProcess call of every iteration captured on the instance; '
                 'non-trivial = iteration with populated classes and non-zero growth; distinct = (run seed, iteration)')
    lines, tags = [], []
    for ci, cfg in enumerate(cfgs):
        holder = {'case': dict(grain=cfg)}
        ok, val = vlib.guarded(res, 'grain-run', holder, grain_run, cfg)
        if not ok:
            if res.violations and res.violations[-1]['key'].startswith('raises:'):
                res.violations[-1]['case'] = dict(grain=cfg)
            continue
        m, rec = val
        res.traces += 1
        res.count('grain-run:' + cfg['solver']); res.count('grain-dist:' + cfg['dist']); res.count('grain-hist:' + cfg['hist'])
        res.count('grain-zener' if cfg['zener'] else 'grain-no-zener')
        res.count('grain-bins:%d/%d/%d' % tuple(cfg['bins']))
        nit = 1 + max([it for _, it, _ in rec] or [0])
        # grid events (by iteration: the grid seen by getDt of iteration k vs k-1)
        events = set()
        prev = None
        for kind, it, r in rec:
            if kind != 'dt':
                continue
            w = r['b'][1] - r['b'][0]
            if prev is not None:
                if abs(w - prev[1]) > 1e-9 * w:
                    events.add(it); res.count('grain-event:re-binned' + ('-fewer' if r['bins'] < prev[0] else '-split'))
                    if r['idx'] != prev[2]:
                        res.count('grain-event:re-binned-index-changed')
                elif r['bins'] != prev[0]:
                    events.add(it); res.count('grain-event:extended')
            prev = (r['bins'], w, r['idx'])
        stride = lean_stride or (1 if nit <= 400 else 10)
        def fed(it):
            return it < 30 or it % stride == 0 or any(abs(it - e) <= 2 for e in events)
        first_dt_after_reset = cfg['hist'] == 'reset-before-solve'
        for kind, it, r in rec:
            b, n = r['b'], r['bins']
            desc = dict(grain=cfg, iteration=it, call=kind, bins=n, bounds=[float(b[0]), float(b[-1])])
            if kind == 'init':
                # state left by LoadDistribution / LoadDistributionFunction / reset(): the stored index is that of the stored state
                cur, tie = ref_diss_index(r['psd'], b, cfg['maxdiss'])
                desc.update(stored_index=r['idx'], current_index=cur, psd=r['psd'].tolist())
                if tie:
                    res.near_tie_skipped += 1
                else:
                    res.count('grain-initial-index>0' if cur > 0 else 'grain-initial-index=0')
                    if not oracle_only:
                        lines.append('pbm.dissidx %s %s %s 0' % (enc_list(r['psd']), enc_list(r['size']), f2b(cfg['maxdiss'])))
                        tags.append(('init', desc, r))
                continue
            if kind == 'dxdt':
                x, growth, d, nf = r['x'], r['growth'], r['d'], r['nf']
                nontriv = bool(x.max() > 0 and np.abs(growth).max() > 0)
                res.case(('grain', cfg['s'], it, r['stage']), nontriv)
                res.count('grain-call:getdXdt')
                desc.update(stage=r['stage'], psd=x.tolist(), growth=growth.tolist())
                if len(x) != n or len(growth) != n + 1 or len(d) != n:
                    res.violate('grain-array-lengths', 'state/growth/dXdt length does not match the current grid', desc, [len(x), len(growth), len(d)], n); continue
                if not np.array_equal(x, r['x_after']):
                    res.violate('grain-call-modifies-arguments', 'getdXdt modified its distribution argument', desc)
                rg, gtie = ref_growth(cfg, r['z'], x, b)
                if gtie:
                    res.near_tie_skipped += 1
                else:
                    kk = cfg['alpha'] * cfg['M'] * cfg['gbe']
                    for j in range(n + 1):
                        if not close(growth[j], rg[j], 1e-9, kk / float(b[j])):
                            res.violate('grain-growth-field', 'growth rate at face %d is not the pinned growth law on the current grid and distribution' % j,
                                        desc, float(growth[j]), rg[j]); break
                rnf = ref_netflux(b, growth, x)
                for j in range(n + 1):
                    if not close(nf[j], rnf[j], 1e-9, 1e-300):
                        res.violate('grain-upwind-face-flux', 'face %d flux is not the upwind adjacent-class flux' % j, desc, float(nf[j]), rnf[j]); break
                if any(d[i] != nf[i] - nf[i + 1] for i in range(n)):
                    res.violate('grain-nucleation-term', 'dXdt is not the difference of the two face fluxes (no nucleation in grain growth)', desc)
                tot = float(np.sum(d)); need = rnf[0] - rnf[n]
                if not close(tot, need, 1e-9, float(np.sum(np.abs(rnf))) * 2):
                    res.violate('grain-budget', 'sum dXdt != flux(0) - flux(n) (no nucleation)', desc, tot, need)
                if rnf[0] > 0 or rnf[n] < 0 or nf[0] > 0 or nf[n] < 0:
                    res.violate('grain-ends-one-sided', 'grains enter through an end of the grid', desc, [float(nf[0]), float(nf[n])])
                if fed(it) and not oracle_only:
                    lines.append('pbm.dxdt %s %s %s %s %s' % (enc_list(b), enc_list(growth), enc_list(x), f2b(0.0), f2b(0.0)))
                    tags.append(('dxdt', desc, r))
            elif kind == 'dt':
                psd, growth, dt, idx, rem = r['psd'], r['growth'], r['dt'], r['idx'], r['remaining']
                res.count('grain-call:getDt')
                desc.update(psd=psd.tolist(), growth=growth.tolist(), stored_index=idx, remaining=rem, maxDissolution=cfg['maxdiss'])
                if len(psd) != n or len(growth) != n + 1:
                    res.violate('grain-array-lengths', 'distribution/growth length does not match the current grid', desc, [len(psd), len(growth)], n); continue
                if r['ratio_used'] != GRAIN_RATIO:
                    res.violate('grain-dt-ratio', 'getDt used a fraction of the class width other than the stated one', desc, r['ratio_used'], GRAIN_RATIO)
                cur, tie = ref_diss_index(psd, b, cfg['maxdiss'])
                desc.update(current_index=cur)
                if tie:
                    res.near_tie_skipped += 1
                else:
                    sel = [abs(float(growth[j])) for j in range(cur, n) if psd[j] > 0]
                    want = rem if (not sel or max(sel) == 0) else GRAIN_RATIO * (float(b[1]) - float(b[0])) / max(sel)
                    res.count('grain-dt:index>0' if cur > 0 else 'grain-dt:index=0')
                    if it in events:
                        res.count('grain-dt:first-step-on-a-changed-grid')
                    if not close(dt, want, 1e-12):
                        key = 'grain-dt-limit'
                        what = ('iteration %d: the proposed step is not %g*width/max|growth| over the left faces j >= dissolution index of populated classes of the '
                                'CURRENT grid (stored index %d, index of the current distribution/grid %d, %d classes)' % (it, GRAIN_RATIO, idx, cur, n))
                        if first_dt_after_reset and it == 0 and idx == 0 and cur != 0:
                            key = 'grain-dt-limit:index-zero-after-reset'
                            what = ('first step after GrainGrowthModel.reset(): reset() restores the loaded distribution but sets dissolutionIndex = 0 '
                                    '(index of the restored distribution %d), so the proposed step is not the stated limit' % cur)
                        res.violate(key, what, desc, dt, want)
                    elif idx != cur:
                        res.count('grain-dt:stored-index-differs-same-step')
                first_dt_after_reset = False
                if fed(it) and not oracle_only:
                    lines.append('gg.getdt %s %s %s %d %s %s' % (enc_list(b), enc_list(growth), enc_list(psd), idx, f2b(rem), f2b(GRAIN_RATIO)))
                    tags.append(('dt', desc, r))
            elif kind == 'corr':
                x, nf0, nfc, dc, dt = r['x'], r['nf0'], r['nf'], r['d'], r['dt']
                res.count('grain-call:correctdXdt')
                desc.update(stage=r['stage'], dt=dt, psd=x.tolist(), netFlux_before=nf0.tolist())
                if len(x) != n or len(nf0) != n + 1 or len(dc) != n:
                    res.violate('grain-array-lengths', 'state/flux length does not match the current grid', desc, [len(x), len(nf0), len(dc)], n); continue
                if not np.array_equal(x, r['x_after']):
                    res.violate('grain-call-modifies-arguments', 'correctdXdt modified its distribution argument', desc)
                rcf, rface, active = ref_corrected([float(v) for v in nf0], [float(v) for v in x], dt)
                if active:
                    res.count('grain-third-pass-active')
                if any(rcf[j] != float(nf0[j]) for j in range(n + 1)):
                    res.count('grain-correction-active')
                for j in range(n + 1):
                    if not close(nfc[j], rcf[j], 1e-9, 1e-300):
                        res.violate('grain-corrected-flux-not-reference', 'corrected flux of face %d is not the face-wise + total-outflow limited flux' % j,
                                    desc, float(nfc[j]), rcf[j]); break
                for j in range(n + 1):
                    if nfc[j] * nf0[j] < 0 or abs(nfc[j]) > abs(nf0[j]) * (1 + 1e-12):
                        res.violate('grain-correction-not-a-limiter', 'the correction reversed or increased the flux of face %d' % j, desc, float(nfc[j]), float(nf0[j])); break
                if any(dc[i] != nfc[i] - nfc[i + 1] for i in range(n)):
                    res.violate('grain-nucleation-term', 'corrected dXdt is not the difference of the two corrected face fluxes', desc)
                totc = float(np.sum(dc)); needc = float(nfc[0] - nfc[n])
                if not close(totc, needc, 1e-9, float(np.sum(np.abs(nfc))) * 2):
                    res.violate('grain-budget-corrected', 'sum corrected dXdt != corrected end fluxes', desc, totc, needc)
                if nfc[0] > 0 or nfc[n] < 0:
                    res.violate('grain-ends-one-sided', 'grains enter through an end of the grid after correction', desc, [float(nfc[0]), float(nfc[n])])
                newc = x + dt * dc
                for i in range(n):
                    if x[i] >= 0 and newc[i] < -1e-9 * x[i] - 1e-300:
                        res.violate('grain-negative-after-correction', 'class %d negative after the update with the CORRECTED rate of change (holds %r, left %r, right %r per dt)'
                                    % (i, float(x[i]), float(nfc[i] * dt), float(nfc[i + 1] * dt)), desc, float(newc[i]), 0.0); break
                for i in range(n):
                    out = max(-nfc[i], 0.0) + max(nfc[i + 1], 0.0)
                    if x[i] >= 0 and out * dt > x[i] * (1 + 1e-9) + 1e-300:
                        res.violate('grain-total-outflow', 'after correction class %d loses through both faces more than it holds' % i, desc, float(out * dt), float(x[i])); break
                if fed(it) and not oracle_only:
                    if cfg['solver'] == 'euler':
                        lines.append('pbm.correct %s %s %s %s %s %s' % (enc_list(b), enc_list(r['growth']), enc_list(x), f2b(0.0), f2b(0.0), f2b(dt)))
                        tags.append(('corr', desc, r))
                    else:
                        lines.append('pbm.correctnf %s %s 0 %s %s' % (enc_list(nf0), enc_list(x), f2b(0.0), f2b(dt)))
                        tags.append(('corrnf', desc, r))
            else:   # post
                res.count('grain-call:postProcess')
                a = r['adj']
                if a is None or r['pre'] is None:
                    res.violate('grain-post-order', 'postProcess did not call adjustSizeClassesEuler', desc); continue
                desc.update(stored_index=r['idx'], bins_before=r['pre']['bins'], bins_after=a['bins'])
                if fed(it) and not oracle_only and a['psd'].max() > 0:
                    lines.append('gg.post %s %s %s %s %s' % (enc_list(r['xin']), enc_list(a['psd']), enc_list(a['b']), enc_list(a['size']), f2b(cfg['maxdiss'])))
                    tags.append(('post', desc, r))
    model = vlib.run_driver(PROP, lines) if (lines and ctx.driver_ok and not oracle_only) else None
    if model is not None:
        res.count('grain-lean-lines', len(lines))
        for ans, (kind, desc, r) in zip(model, tags):
            t = Toks(ans)
            if not t.ok:
                res.disagree('grain %s model error' % kind, desc, 'ok', t.err); continue
            if kind == 'init':
                mi = t.nat()
                if mi != r['idx']:
                    res.disagree('grain initial state (%s): stored dissolution index is not the index of the stored distribution' % desc['grain']['hist'], desc, r['idx'], mi)
            elif kind == 'dxdt':
                mk = t.nat(); mnf = t.flts(); md = t.flts()
                sc = float(np.abs(r['nf']).max())
                if mk != 0 or not vlib.all_close(r['nf'], mnf, 1e-9, 1e-300) or not vlib.all_close(r['d'], md, 1e-9, sc * 1e-3):
                    res.disagree('grain getdXdt', desc, r['d'].tolist(), md)
            elif kind == 'dt':
                if not close(r['dt'], t.flt(), 1e-12):
                    res.disagree('grain getDt', desc, r['dt'], ans)
            elif kind in ('corr', 'corrnf'):
                if kind == 'corr':
                    t.nat()
                mnfc = t.flts(); mdc = t.flts()
                sc = float(np.abs(r['nf0']).max())
                if any(v < 0 for v in r['x']):
                    res.near_tie_skipped += 1      # rounding-negative stage state: outside psd >= 0
                elif not vlib.all_close(r['nf'], mnfc, 1e-9, 1e-300) or not vlib.all_close(r['d'], mdc, 1e-9, sc * 1e-3):
                    res.disagree('grain correctdXdt', desc, r['nf'].tolist(), mnfc)
            else:
                midx = t.nat(); mtr = t.flts(); mst = t.flts(); midx2 = t.nat()
                a = r['adj']
                _, tie = ref_diss_index(a['psd'], a['b'], desc['grain']['maxdiss'])
                if not vlib.all_close(r['pre']['psd'], mtr, 0.0, 0.0):
                    res.disagree('grain postProcess: distribution handed to adjustSizeClassesEuler is not the truncated new state', desc, r['pre']['psd'].tolist(), mtr)
                if not vlib.all_close(r['psd'], mst, 1e-9, 0.0):
                    res.disagree('grain postProcess: stored distribution is not the normalized adjusted one', desc, r['psd'].tolist(), mst)
                if tie:
                    res.near_tie_skipped += 1
                elif midx != r['idx'] or midx2 != r['idx']:
                    res.disagree('grain postProcess: stored dissolution index is not the index of the adjusted (stored) grid', desc, r['idx'], [midx, midx2])
    return res


def search(ctx, broken):
    """something no longer checks: look for a failing input with the oracle alone on a larger sample"""
    return corr(ctx, ncases=ctx.n(6000, 60000), oracle_only=True)


def replay(ctx, entry):
    c = entry['violation']['case']
    if 'grain' in c:
        # a grain-growth run is deterministic in its configuration: re-run it and evaluate the oracle on every iteration
        ctx.driver_ok = False
        r = corr_grain(ctx, Result(), oracle_only=True, cfgs=[c['grain']])
        for v in r.violations:
            print('  ', v['key'], v['what'], v['observed'], v['required'])
        return not r.violations
    case = {k: c[k] for k in GEN_KEYS if k in c}
    for k, dflt in (('hist', 'fresh'), ('dtkind', 'limit'), ('dmult', 1.0), ('nucpos', 'first'), ('nucoff', 'exact'), ('nucspecial', 'zero'), ('cmin0', False)):
        case[k] = c.get(k, dflt)
    case['n'] = c.get('n0', c['n'])
    class R:  # replays exactly this case
        def __init__(s): pass
    import random
    saved = gen_case
    try:
        globals()['gen_case'] = lambda rng: case
        ctx.driver_ok = False
        r = corr(ctx, ncases=1, oracle_only=True, grain=False, sweep=False)
    finally:
        globals()['gen_case'] = saved
    for v in r.violations:
        print('  ', v['key'], v['what'], v['observed'], v['required'])
    return not r.violations
