"""C07 — size-class transport: correspondence PopulationBalance.py <-> KawinV.PBM, plus an
independent scalar reference (direct oracle of the property on the implementation)."""
import math
import numpy as np
import vlib
from vlib import Result, enc_list, f2b, Toks, close

PROP = 'C07'
META = {
    'level_text': 'Lean 4 theorems for every grid size, distribution, growth field, nucleation term and step (budget by telescoping, one-sided ends, upwind adjacent-class exchange, unique nucleation class, face-wise limiter and class-wise total-outflow limiter, UNCONDITIONAL non-negativity of the corrected Euler update, step-limit formula, non-negativity under the limit) about an executable model of getdXdtEuler/correctdXdtEuler/getDTEuler; the model is tied to PopulationBalance.py by differential correspondence on every run, and the property predicate is also evaluated on the implementation outputs against an independent scalar reference.',
    'level_note': 'Trusted: Lean kernel + Mathlib, axioms propext/Classical.choice/Quot.sound; the hand model KawinV.PBM equals the NumPy code only as far as this run compared them (thousands of structured cases); exact-field arithmetic instead of IEEE doubles; NaN/inf growth rates outside the statement.',
    'technique': 'Lean 4 proof over ordered fields + model/implementation differential correspondence',
    'design_ref': 'DESIGN.md section 6, C07',
}
LEAN_MODULES = ['KawinV.Props.C07']
MONITORED = []
ASSUMPTIONS = [
    'distributions are non-negative and finite, growth fields finite (NaN/inf growth is outside the statement)',
    'exact-field theorems vs IEEE doubles: sums compared with rtol 1e-9 scaled by the magnitude of the summed terms',
]
TRUSTED = ['np.argmax/np.sign/np.linspace semantics as modelled in KawinV.PBM (compared on every run)']


def gen_case(rng):
    """structured, mostly physical inputs; returns dict"""
    kind = rng.choice(['tiny', 'small', 'small', 'medium', 'large'])
    n = {'tiny': rng.randint(1, 3), 'small': rng.randint(2, 12), 'medium': rng.randint(13, 80), 'large': rng.randint(81, 400)}[kind]
    cmin = 10 ** rng.uniform(-10.5, -8)
    cmax = cmin * rng.choice([10, 10, 30, 100])
    dist = rng.choice(['empty', 'single', 'sparse', 'lognormal', 'huge-range', 'uniform', 'ones'])
    gro = rng.choice(['1/R', '1/R', 'signchange', 'zeros', 'allneg', 'allpos', 'random', 'some-zero',
                      'split-in-populated', 'split-in-populated', '1/R-in-populated'])
    nuc = rng.choice(['inside', 'inside', 'inside', 'on-boundary', 'below', 'above', 'zero-rate'])
    hist = rng.choice(['fresh', 'fresh', 'fresh', 'remesh', 'add', 'revert', 'recorded', 'recorded-load'])
    return dict(n=n, cmin=cmin, cmax=cmax, dist=dist, gro=gro, nuc=nuc, hist=hist,
                s=rng.getrandbits(32), dtmul=10 ** rng.uniform(-3, 1), ratio=rng.choice([0.4, 0.4, 0.5, 0.25, 0.1]),
                maxdiss=rng.choice([1e-3, 0.01, 0.1, 0.0]),
                # 'drain': dt is a multiple of the time in which the fastest two-sided class would empty (classes below the
                # dissolution index / caller-chosen dt are not covered by getDTEuler), so the class-wise third pass is active
                dtkind=rng.choice(['limit', 'limit', 'drain']), dmult=10 ** rng.uniform(-0.5, 2.5))


def build(case):
    vlib.use_repo()
    from kawin.precipitation.PopulationBalance import PopulationBalanceModel
    r = np.random.default_rng(case['s'])
    n = case.setdefault('n0', case['n'])     # requested number of classes (case['n'] becomes the number after the grid history)
    pbm = PopulationBalanceModel(cMin=case['cmin'], cMax=case['cmax'], bins=n, minBins=max(1, n // 2), maxBins=3 * n + 40)
    # the transport functions must work on whatever grid the object currently holds: reach the grid through public
    # grid operations as well (re-mesh, extension, backup/revert, restoring a recorded distribution), not only by construction
    h = case.get('hist', 'fresh')
    if h == 'remesh':
        pbm.changeSizeClasses(case['cmin'] * r.uniform(0.5, 2), case['cmax'] * r.uniform(0.5, 3), max(1, int(n * r.uniform(0.4, 2.0))))
    elif h == 'add':
        pbm.addSizeClasses(int(r.integers(1, 20)))
    elif h == 'revert':
        pbm.createBackup()
        pbm.changeSizeClasses(case['cmin'], case['cmax'] * 4, max(1, n // 2))
        pbm.revert()
    elif h in ('recorded', 'recorded-load'):
        pbm.enableRecording()
        pbm.PSD = np.full(pbm.bins, 1e10); pbm.record(1.0)
        pbm.changeSizeClasses(case['cmin'], case['cmax'] * 3, max(1, (2 * n) // 3))
        pbm.PSD = np.full(pbm.bins, 1e10); pbm.record(2.0)
        if h == 'recorded-load':
            import tempfile, os, io, contextlib
            d = tempfile.mkdtemp(prefix='c07_')
            try:
                pbm.saveRecordedPSD(os.path.join(d, 'psd'))
                pbm = PopulationBalanceModel()
                pbm.loadRecordedPSD(os.path.join(d, 'psd.npz'))
            finally:
                import shutil; shutil.rmtree(d, ignore_errors=True)
        import io, contextlib
        with contextlib.redirect_stdout(io.StringIO()):
            pbm.setPSDtoRecordedTime(0.5)
    n = case['n'] = int(pbm.bins)
    R = pbm.PSDsize
    d = case['dist']
    if d == 'empty':
        psd = np.zeros(n)
    elif d == 'single':
        psd = np.zeros(n); psd[r.integers(0, n)] = 10 ** r.uniform(0, 25)
    elif d == 'sparse':
        psd = np.where(r.random(n) < 0.3, 10 ** r.uniform(0, 22, n), 0.0)
    elif d == 'lognormal':
        mu = r.uniform(0.1, 0.9) * n
        psd = 1e20 * np.exp(-0.5 * ((np.arange(n) - mu) / max(1.0, 0.15 * n)) ** 2)
    elif d == 'huge-range':
        psd = 10 ** r.uniform(-30, 30, n)
    elif d == 'uniform':
        psd = np.full(n, 10 ** r.uniform(3, 20))
    else:
        psd = np.ones(n)
    b = pbm.PSDbounds
    g = case['gro']
    rc = b[0] + r.uniform(-0.2, 1.2) * (b[-1] - b[0])
    pop = np.nonzero(psd > 0)[0]
    m = int(pop[r.integers(0, len(pop))]) if len(pop) else int(r.integers(0, n))   # a populated class when there is one
    if g == '1/R':
        flux = 1e-18 * (1 / max(rc, 1e-12) - 1 / b) / b * 1e9
    elif g == '1/R-in-populated':
        # physical law with the critical radius strictly inside class m: growth rate changes sign inside a populated class
        rc = b[m] + r.uniform(0.05, 0.95) * (b[m + 1] - b[m])
        flux = 1e-18 * (1 / rc - 1 / b) / b * 10 ** r.uniform(7, 11)
    elif g == 'split-in-populated':
        # faces up to m shrink, faces above m grow: class m drains through both faces
        flux = np.where(np.arange(n + 1) <= m, -1.0, 1.0) * 10 ** r.uniform(-14, -8, n + 1)
    elif g == 'signchange':
        flux = np.where(r.random(n + 1) < 0.5, -1.0, 1.0) * 10 ** r.uniform(-14, -8, n + 1)
    elif g == 'zeros':
        flux = np.zeros(n + 1)
    elif g == 'allneg':
        flux = -10 ** r.uniform(-14, -8, n + 1)
    elif g == 'allpos':
        flux = 10 ** r.uniform(-14, -8, n + 1)
    elif g == 'some-zero':
        flux = np.where(r.random(n + 1) < 0.4, 0.0, r.normal(0, 1e-10, n + 1))
    else:
        flux = r.normal(0, 1e-10, n + 1)
    nu = case['nuc']
    nucRate = 0.0 if nu == 'zero-rate' else 10 ** r.uniform(0, 24)
    if nu in ('inside', 'zero-rate'):
        nucRad = b[0] + r.random() * (b[-1] - b[0]) * 0.999
    elif nu == 'on-boundary':
        nucRad = float(b[r.integers(0, n)])   # a lower boundary, incl. b[0]; never the last one
    elif nu == 'below':
        nucRad = b[0] * r.uniform(0.1, 0.999)
    else:
        nucRad = b[-1] * r.uniform(1.0, 3.0)
    return pbm, psd.astype(float), flux.astype(float), float(nucRate), float(nucRad)


# ------------------------------------------------------------------ independent scalar reference
def ref_netflux(b, flux, psd):
    n = len(psd)
    nf = [0.0] * (n + 1)
    for j in range(n + 1):
        if flux[j] > 0:
            if j >= 1:
                nf[j] = flux[j] * psd[j - 1] / (b[j] - b[j - 1])
        else:
            if j < n:
                nf[j] = flux[j] * psd[j] / (b[j + 1] - b[j])
    return nf


def ref_corrected(nf, psd, dt):
    """independent scalar form of correctdXdtEuler's face fluxes: the two face-wise limits, then the limit on the
    TOTAL outflow of every class (outflow faces of a class scaled by psd/(outflow*dt)).  Returns the corrected
    fluxes, the fluxes after the two face-wise passes alone, and the classes on which the third pass acted."""
    n = len(psd)
    g = [float(v) for v in nf]
    for i in range(n):                      # left faces
        if g[i] * dt < -psd[i]:
            g[i] = -psd[i] / dt
    for i in range(n):                      # right faces
        if g[i + 1] * dt > psd[i]:
            g[i + 1] = psd[i] / dt
    face = list(g)
    active = []
    for i in range(n):                      # every face is an outflow face of at most one class: order is irrelevant
        ol = -face[i] if face[i] < 0 else 0.0
        orr = face[i + 1] if face[i + 1] > 0 else 0.0
        out = ol + orr
        if out * dt > psd[i]:
            sc = psd[i] / (out * dt)
            if ol > 0:
                g[i] = face[i] * sc
            if orr > 0:
                g[i + 1] = face[i + 1] * sc
            active.append((i, ol > 0 and orr > 0))
    return g, face, active


def containing_class(b, r):
    n = len(b) - 1
    for i in range(n):
        if b[i] <= r < b[i + 1]:
            return i
    return None


def corr(ctx, ncases=None, oracle_only=False):
    res = Result()
    res.rule = ('random PBM grids (1-400 classes) x distribution kind x growth-field kind (incl. sign change of the growth rate inside a populated class) '
                'x nucleation radius position x dt (multiples of the step limit, and multiples of the time in which a two-sided class empties: third pass active); '
                'non-trivial = populated distribution and non-zero growth field; distinct = (kind tuple, n, seed)')
    N = ncases or ctx.n(1500, 40000)
    cases, impl, lines, extra = [], [], [], []
    holder = {}
    def one_case():
            c = gen_case(ctx.rng); holder['case'] = c
            L = []
            pbm, psd, flux, nucRate, nucRad = build(c)
            n = c['n']; b = pbm.PSDbounds.copy()
            psd0, flux0 = psd.copy(), flux.copy()
            d = pbm.getdXdtEuler(flux, nucRate, nucRad, psd)
            nf = pbm._netFlux.copy()
            d_nuconly = pbm.getdXdtEuler(np.zeros(n + 1), nucRate, nucRad, psd)   # zero growth: only the nucleation term is left
            # step limit
            if c['maxdiss'] > 0 and psd.sum() > 0:
                pbm.PSD = psd.copy()
                dissIdx = int(pbm.getDissolutionIndex(c['maxdiss'], 0))
            else:
                dissIdx = 0
            pbm.PSD = psd.copy()
            currDT = 1.0e5
            dtlim = float(pbm.getDTEuler(currDT, flux, dissIdx, c['ratio']))
            dt = dtlim * c['dtmul'] if c['dtmul'] < 5 else dtlim * 10
            if c.get('dtkind') == 'drain':
                outl = np.maximum(-nf[:-1], 0); outr = np.maximum(nf[1:], 0)
                two = (outl > 0) & (outr > 0) & (psd > 0)
                if two.any():
                    dt = float(c['dmult'] * np.min(psd[two] / (outl[two] + outr[two])))
            pbm.getdXdtEuler(flux, nucRate, nucRad, psd)
            dc = pbm.correctdXdtEuler(dt, flux, nucRate, nucRad, psd)
            nfc = pbm._netFlux.copy()
            argmod = not (np.array_equal(psd, psd0) and np.array_equal(flux, flux0))
            L.append('pbm.dxdt %s %s %s %s %s' % (enc_list(b), enc_list(flux), enc_list(psd), f2b(nucRate), f2b(nucRad)))
            L.append('pbm.correct %s %s %s %s %s %s' % (enc_list(b), enc_list(flux), enc_list(psd), f2b(nucRate), f2b(nucRad), f2b(dt)))
            L.append('pbm.getdt %s %s %s %d %s %s' % (enc_list(b), enc_list(flux), enc_list(psd), dissIdx, f2b(currDT), f2b(c['ratio'])))
            # dissolution index with a non-trivial lower bound as well (the caller passes RdrivingForceIndex)
            minIdx = int(np.random.default_rng(c['s'] + 7).integers(0, max(1, n // 3) + 1))
            pbm.PSD = psd.copy()
            dI = int(pbm.getDissolutionIndex(c['maxdiss'] if c['maxdiss'] > 0 else 1e-3, minIdx))
            L.append('pbm.dissidx %s %s %s %d' % (enc_list(psd), enc_list(pbm.PSDsize), f2b(c['maxdiss'] if c['maxdiss'] > 0 else 1e-3), minIdx))
            # all implementation calls of this case succeeded: register it atomically
            cases.append((c, b, psd, flux, nucRate, nucRad, dissIdx, dt, currDT))
            impl.append((d, nf, d_nuconly, dtlim, dc, nfc, argmod))
            extra.append((minIdx, dI, pbm.PSDsize.copy()))
            lines.extend(L)

    for _ in range(N):
        holder.clear()
        ok, _ = vlib.guarded(res, 'pbm-transport', holder, one_case)
        if not ok and res.violations and res.violations[-1]['key'].startswith('raises:'):
            res.violations[-1]['case'] = dict(holder.get('case', {}))
    model = vlib.run_driver(PROP, lines) if (ctx.driver_ok and not oracle_only) else None

    for k, ((c, b, psd, flux, nucRate, nucRad, dissIdx, dt, currDT), (d, nf, d_nuconly, dtlim, dc, nfc, argmod)) in enumerate(zip(cases, impl)):
        n = c['n']
        nontriv = psd.max() > 0 and np.abs(flux).max() > 0
        res.case((c['dist'], c['gro'], c['nuc'], c['hist'], n, c['s']), nontriv)
        res.count('dist:' + c['dist']); res.count('growth:' + c['gro']); res.count('nuc:' + c['nuc']); res.count('grid-history:' + c['hist'])
        res.count('n<=3' if n <= 3 else 'n<=80' if n <= 80 else 'n>80')
        desc = dict(c, bounds=[float(b[0]), float(b[-1])], nucRate=nucRate, nucRadius=nucRad, dt=dt, dissIdx=dissIdx)
        if k < 2:
            res.sample(dict(desc, psd_head=psd[:4].tolist(), flux_head=flux[:4].tolist(), dXdt_head=np.asarray(d)[:4].tolist()))
        scale = float(np.abs(nf).max()) + abs(nucRate)
        # ---------------- correspondence
        if model is not None:
            t = Toks(model[4 * k])
            if not t.ok:
                res.disagree('pbm.dxdt model error ' + str(t.err), desc, 'ok', t.err)
            else:
                mk = t.nat(); mnf = t.flts(); md = t.flts()
                recv = np.nonzero(np.asarray(d_nuconly))[0].tolist() if nucRate != 0 else None
                if recv is not None and recv != [mk]:
                    res.disagree('nucleation class index', desc, recv, mk)
                if not vlib.all_close(nf, mnf, 1e-9, 1e-300):
                    res.disagree('netFlux', desc, nf.tolist(), mnf)
                if not vlib.all_close(d, md, 1e-9, scale * 1e-3):
                    res.disagree('dXdt', desc, np.asarray(d).tolist(), md)
            t = Toks(model[4 * k + 1])
            if not t.ok:
                res.disagree('pbm.correct model error', desc, 'ok', t.err)
            else:
                t.nat(); mnfc = t.flts(); mdc = t.flts()
                if not vlib.all_close(nfc, mnfc, 1e-9, 1e-300):
                    res.disagree('corrected netFlux', desc, nfc.tolist(), mnfc)
                if not vlib.all_close(dc, mdc, 1e-9, scale * 1e-3):
                    res.disagree('corrected dXdt', desc, np.asarray(dc).tolist(), mdc)
            t = Toks(model[4 * k + 2])
            if not t.ok or not close(dtlim, t.flt(), 1e-12):
                res.disagree('getDTEuler', desc, dtlim, model[4 * k + 2])
            t = Toks(model[4 * k + 3]); minIdx, dI, size = extra[k]
            md = c['maxdiss'] if c['maxdiss'] > 0 else 1e-3
            cum = np.cumsum(psd * size ** 3); tot = float(np.sum(psd * size ** 3))
            tie = tot > 0 and np.any(np.abs(cum - md * tot) <= 1e-9 * tot)
            if tie:
                res.near_tie_skipped += 1
            elif not t.ok or t.nat() != dI:
                res.disagree('getDissolutionIndex', desc, dI, model[4 * k + 3])
        # ---------------- direct oracle (independent scalar reference)
        minIdx, dI, size = extra[k]
        md = c['maxdiss'] if c['maxdiss'] > 0 else 1e-3
        vol = [float(a) * float(r) ** 3 for a, r in zip(psd, size)]
        tot = math.fsum(vol)
        if dI < minIdx:
            res.violate('dissolution-index-below-min', 'dissolution index below the index of the last unstable class', desc, dI, minIdx)
        elif dI > minIdx:
            below = math.fsum(vol[:dI])          # volume of the classes that the step limit ignores
            if below > md * tot * (1 + 1e-9) + 1e-300:
                res.violate('dissolution-index-ignores-too-much', 'classes below the dissolution index hold more than maxDissolution of the '
                            'particle volume', desc, below / tot if tot else below, md)
            res.count('dissidx>min')
        rnf = ref_netflux(b, flux, psd)
        if argmod:
            res.violate('pbm-call-modifies-arguments', 'a PBM transport call modified its psd/flux argument', desc)
        # adjacent-only upwind exchange
        for j in range(n + 1):
            if not close(nf[j], rnf[j], 1e-9, 1e-300):
                res.violate('upwind-face-flux', 'face %d flux is not the upwind adjacent-class flux' % j, desc, float(nf[j]), rnf[j]); break
        # budget
        tot = float(np.sum(d)); need = rnf[0] - rnf[n] + (nucRate)
        mag = float(np.sum(np.abs(rnf))) * 2 + abs(nucRate)
        if not close(tot, need, 1e-9, mag):
            res.violate('budget', 'sum dXdt != flux(0) - flux(n) + nucRate', desc, tot, need)
        totc = float(np.sum(dc)); needc = float(nfc[0] - nfc[n] + nucRate)
        if not close(totc, needc, 1e-9, float(np.sum(np.abs(nfc))) * 2 + abs(nucRate)):
            res.violate('budget-corrected', 'sum corrected dXdt != corrected end fluxes + nucRate', desc, totc, needc)
        if rnf[0] > 0 or rnf[n] < 0 or nf[0] > 0 or nf[n] < 0 or nfc[0] > 0 or nfc[n] < 0:
            res.violate('ends-one-sided', 'particles enter through an end of the grid', desc, [float(nf[0]), float(nf[n])])
        # nucleation class
        if nucRate != 0:
            recv = np.nonzero(np.asarray(d_nuconly))[0].tolist()
            want = containing_class(b, nucRad)
            if want is not None:
                if recv != [want]:
                    res.violate('nucleation-class', 'nuclei did not enter exactly the class containing the radius', desc, recv, [want])
            elif nucRad < b[0]:
                res.count('nuc-outside-below')
                if recv != [0] and recv != []:
                    res.violate('nuc-below-grid-enters-class-%s' % ('last' if recv == [n - 1] else 'other'),
                                'radius below the grid: nuclei entered class %s of %d (no class contains the radius; the nearest is 0)' % (recv, n), desc, recv, [0])
            else:
                res.count('nuc-outside-above')
                if recv != [n - 1] and recv != []:
                    res.violate('nuc-above-grid', 'radius above the grid: nuclei entered class %s, nearest is the last' % recv, desc, recv, [n - 1])
        # corrected fluxes: scalar reference of the three passes, and what the passes must achieve
        rcf, rface, active = ref_corrected(rnf, [float(v) for v in psd], dt)
        signchange = any(flux[i] < 0 and flux[i + 1] > 0 and psd[i] > 0 for i in range(n))
        if signchange:
            res.count('sign-change-inside-populated-class')
        if active:
            res.count('third-pass-active')
            if any(two for _, two in active):
                res.count('third-pass-active:class-drained-through-both-faces')
        old = [psd[i] + dt * (rface[i] - rface[i + 1]) for i in range(n)]
        if any(old[i] < -1e-6 * psd[i] - 1e-300 for i in range(n)):
            res.count('face-wise-passes-alone-would-go-negative')
        for j in range(n + 1):
            if not close(nfc[j], rcf[j], 1e-9, 1e-300):
                res.violate('corrected-flux-not-reference', 'corrected flux of face %d is not the face-wise + total-outflow limited flux' % j,
                            desc, float(nfc[j]), rcf[j]); break
        for j in range(n + 1):
            if nfc[j] * nf[j] < 0 or abs(nfc[j]) > abs(nf[j]) * (1 + 1e-12):
                res.violate('correction-not-a-limiter', 'the correction reversed or increased the flux of face %d' % j, desc, float(nfc[j]), float(nf[j])); break
        newc = psd + dt * np.asarray(dc)
        for i in range(n):
            # (b): unconditional -- every class of every generated case, whatever dt and the dissolution index
            if newc[i] < -1e-9 * psd[i] - 1e-300:
                res.violate('negative-after-correction', 'class %d negative after an Euler step with the CORRECTED rate of change '
                            '(holds %r, left face %r, right face %r per dt)' % (i, float(psd[i]), float(nfc[i] * dt), float(nfc[i + 1] * dt)),
                            desc, float(newc[i]), 0.0); break
        for i in range(n):
            out = max(-nfc[i], 0.0) + max(nfc[i + 1], 0.0)
            if out * dt > psd[i] * (1 + 1e-9) + 1e-300:
                res.violate('total-outflow', 'after correction class %d loses through both faces more than it holds' % i, desc, float(out * dt), float(psd[i])); break
        # limiter
        tol = 1e-9
        for i in range(n):
            if dt > 0 and (nfc[i] * dt < -psd[i] * (1 + tol) - 1e-300 or nfc[i + 1] * dt > psd[i] * (1 + tol) + 1e-300):
                res.violate('limiter', 'after correction class %d loses more through one face than it holds' % i, desc,
                            [float(nfc[i] * dt), float(nfc[i + 1] * dt)], float(psd[i])); break
        # step limit formula + non-negativity under the model's own limit (dissolution index 0)
        sel = [abs(flux[j]) for j in range(dissIdx, n) if psd[j] > 0]
        want = currDT if (not sel or max(sel) == 0) else c['ratio'] * (b[1] - b[0]) / max(sel)
        if not close(dtlim, want, 1e-12):
            res.violate('step-limit', 'getDTEuler is not ratio*width/fastest relevant rate', desc, dtlim, want)
        if sel and max(sel) > 0 and c['ratio'] <= 0.5:
            new = psd + dtlim * np.asarray(d)
            dR = b[1] - b[0]
            for i in range(n):
                # a class obeys the model's own step limit when both of its faces move <= ratio*width in dt
                if dtlim * abs(flux[i]) <= c['ratio'] * dR and dtlim * abs(flux[i + 1]) <= c['ratio'] * dR:
                    res.count('nonneg-class-checked')
                    if new[i] < -1e-9 * psd[i] - 1e-300:
                        res.violate('nonneg-under-limit', 'class %d negative after an Euler step at the model step limit' % i, desc, float(new[i]), 0.0); break
    vlib.finish_guard(res)
    return res


def search(ctx, broken):
    """something no longer checks: look for a failing input with the oracle alone on a larger sample"""
    return corr(ctx, ncases=ctx.n(6000, 60000), oracle_only=True)


def replay(ctx, entry):
    c = entry['violation']['case']
    case = {k: c[k] for k in ('n', 'cmin', 'cmax', 'dist', 'gro', 'nuc', 's', 'dtmul', 'ratio', 'maxdiss')}
    for k, dflt in (('hist', 'fresh'), ('dtkind', 'limit'), ('dmult', 1.0)):
        case[k] = c.get(k, dflt)
    case['n'] = c.get('n0', c['n'])
    class R:  # replays exactly this case
        def __init__(s): pass
    import random
    saved = gen_case
    try:
        globals()['gen_case'] = lambda rng: case
        ctx.driver_ok = False
        r = corr(ctx, ncases=1, oracle_only=True)
    finally:
        globals()['gen_case'] = saved
    for v in r.violations:
        print('  ', v['key'], v['what'], v['observed'], v['required'])
    return not r.violations
