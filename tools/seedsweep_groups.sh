#!/bin/bash
# tools/seedsweep_groups.sh — which check catches which stored seeded change.  Properties whose Lean modules share regenerated
# files run in ONE lane (sequentially), the lanes run in parallel.  Every seed is applied in its own scratch worktree of /repo
# (outside /repo and /verif, removed afterwards) and the check of the property it breaks runs against that tree (VERIF_REPO);
# /repo itself is never touched.  Result: seeded/RESULTS.md.  Afterwards every check is re-run once on the unchanged tree.
cd "$(dirname "$0")/.." || exit 1
OUT=/tmp/seedsweep_$$; mkdir -p $OUT
lane() {
  for prop in "$@"; do
    for d in seeded/$prop-*; do
      [ -f $d/patch.diff ] || continue
      id=$(basename $d)
      WT=/tmp/sweepwt_${id}_$$
      git -C /repo worktree add -q --detach $WT HEAD 2>/dev/null || { echo "| $id | $prop | worktree failed | | |" > $OUT/$id.row; continue; }
      if ! git -C $WT apply --check "$PWD/$d/patch.diff" 2>/dev/null; then
        echo "| $id | $prop | patch does not apply at HEAD | | |" > $OUT/$id.row
      else
        git -C $WT apply "$PWD/$d/patch.diff"
        log=$(VERIF_REPO=$WT tools/vcheck $prop quick 2>/dev/null); rc=$?
        nv=$(echo "$log" | grep -c '^VIOLATION'); nf=$(echo "$log" | grep -c 'no-failing-input-found')
        keys=$(echo "$log" | grep -E '^  [a-zA-Z]' | grep -v broken | head -3 | sed 's/^  //' | cut -c1-90 | tr '\n' ';' | tr '|' '/')
        echo "| $id | $prop | $rc | $nv$( [ $nf -gt 0 ] && echo ' (no-failing-input-found)') | $keys |" > $OUT/$id.row
      fi
      git -C /repo worktree remove --force $WT >/dev/null 2>&1
    done
    tools/vcheck $prop quick >/dev/null 2>&1 || echo "WARNING: $prop does not pass on the unchanged tree" >> $OUT/warnings
  done
}
lane C01 C02 C03 C12 C13 C14 &
lane C04 C05 C06 &
lane C07 C08 C09 &
lane C10 C11 C15 &
lane C16 C17 &
lane C18 C19 C20 &
wait
{ echo "# Seeded changes vs. checks (tools/seedsweep_groups.sh, $(date -u +%Y-%m-%dT%H:%MZ), /repo HEAD $(git -C /repo log --format=%h -1))"; echo;
  echo "Each seed applied in a scratch worktree at /repo HEAD; quick tier of the check of the property it breaks."; echo;
  echo "| seed | property | check exit | VIOLATION lines | first keys |"; echo "|---|---|---|---|---|";
  for d in $(ls seeded | grep -E '^C[0-9]+-[0-9]+$' | sort -t- -k1,1 -k2,2n); do [ -f $OUT/$d.row ] && cat $OUT/$d.row; done; } > seeded/RESULTS.md
[ -f $OUT/warnings ] && cat $OUT/warnings
rm -rf $OUT
grep -c "^| C" seeded/RESULTS.md
