#!/usr/bin/env python3
"""tools/seedstore3.py <Cxx> : store the validated round-7 seeds of one property from /tmp/seed7_<Cxx>/<k> (+ /tmp/seedres logs)
under seeded/<Cxx>-<next free index>; prints what was stored.  Only seeds whose demo passes unchanged / fails changed and that
keep the 97 tests green are stored."""
import json, os, re, shutil, sys
prop = sys.argv[1]
root = os.path.join(os.path.dirname(os.path.dirname(os.path.abspath(__file__))), 'seeded')
have = [int(d.split('-')[1]) for d in os.listdir(root) if d.startswith(prop + '-') and d.split('-')[1].isdigit()]
nxt = max(have + [0]) + 1
for k in (1, 2):
    src = '/tmp/seed7_%s/%d' % (prop, k)
    log = '/tmp/seedres7/%s-%d.log' % (prop, k)
    if not (os.path.exists(src + '/patch.diff') and os.path.exists(log)):
        print(prop, k, 'missing'); continue
    t = open(log).read()
    d0 = re.search(r'demo on unchanged tree\s+exit (\d+)', t); d1 = re.search(r'demo with the change\s+exit (\d+)', t)
    tests = re.search(r'(\d+) passed', t)
    if not (d0 and d1 and d0.group(1) == '0' and d1.group(1) != '0' and tests and tests.group(1) == '97' and 'failed' not in t.split('existing test suite')[1].split('==')[0]):
        print(prop, k, 'NOT CONFIRMED (demo %s/%s, tests %s)' % (d0 and d0.group(1), d1 and d1.group(1), tests and tests.group(0))); continue
    nv = len(re.findall(r'VIOLATION property', t)); nfi = 'no-failing-input-found' in t
    keys = re.findall(r'\|   ([a-zA-Z][^\n]{2,160})', t.split('against the changed tree')[-1])[:4]
    caught = 'yes' if nv and not nfi else ('no failing input at first (proof/correspondence broke)' if nfi else 'MISSED at first')
    sid = '%s-%d' % (prop, nxt); nxt += 1
    dst = os.path.join(root, sid); os.makedirs(dst, exist_ok=True)
    for f in ('patch.diff', 'demo.py'):
        shutil.copy(os.path.join(src, f), os.path.join(dst, f))
    notes = open(src + '/meta.txt').read() if os.path.exists(src + '/meta.txt') else ''
    needs = ''
    m = re.search(r'(?i)needs?[^\n:]*:\s*(.+?)(?:\n\s*\n|\Z)', notes, re.S)
    if m:
        needs = ' '.join(m.group(1).split())[:400]
    json.dump({'id': sid, 'round': 7, 'breaks_property': prop, 'needs_to_manifest': needs,
               'author': 'independent sub-agent given only the property text and a scratch worktree',
               'confirmed_by_coordinator': 'tools/seedtest.sh in a scratch worktree: demo exit 0 unchanged / %s changed; existing suite with the change: 97 passed' % d1.group(1),
               'check_result': {'caught': caught, 'detected_by': 'tools/vcheck %s quick: %d VIOLATION line(s)%s; %s' % (prop, nv, ' (no-failing-input-found)' if nfi else '', '; '.join(keys))},
               'author_notes': notes}, open(os.path.join(dst, 'meta.json'), 'w'), indent=1)
    print('stored', sid, '|', caught, '|', needs[:100])
